"""Fact extraction: run the ilfacts driver (MIR) and ilsyn (syntax tables) over the
current working tree of the repository, cached under the SHA-256 of its sources.

Nothing of inputlayer is executed: `cargo +nightly check` type-checks the library
crate with the ilfacts driver injected as RUSTC_WORKSPACE_WRAPPER.
"""
import hashlib
import json
import os
import pickle
import shutil
import subprocess
import sys
import time

VERIF = os.path.dirname(os.path.dirname(os.path.abspath(__file__)))
REPO = os.environ.get("ILCHECK_REPO", "/repo")
CACHE = os.environ.get("ILCHECK_CACHE", os.path.join(VERIF, ".cache"))
DRIVER = os.path.join(VERIF, "tools/ilfacts/target/release/ilfacts")
ILSYN = os.path.join(VERIF, "tools/ilsyn/target/release/ilsyn")


def source_hash(repo=None):
    repo = repo or REPO
    h = hashlib.sha256()
    files = []
    for top in ("Cargo.toml", "Cargo.lock", "build.rs"):
        p = os.path.join(repo, top)
        if os.path.exists(p):
            files.append(p)
    for root, dirs, fs in os.walk(os.path.join(repo, "src")):
        dirs.sort()
        for f in sorted(fs):
            files.append(os.path.join(root, f))
    for p in files:
        h.update(os.path.relpath(p, repo).encode())
        h.update(b"\0")
        with open(p, "rb") as fh:
            h.update(fh.read())
        h.update(b"\0")
    # the extractors are part of the key: a rebuilt driver invalidates facts
    for tool in (DRIVER, ILSYN):
        if os.path.exists(tool):
            with open(tool, "rb") as fh:
                h.update(hashlib.sha256(fh.read()).digest())
    return h.hexdigest()[:24]


def nightly_sysroot():
    return subprocess.check_output(["rustc", "+nightly", "--print", "sysroot"], text=True).strip()


def run_driver(repo, outdir, target_dir, crate="inputlayer", cold=False):
    """Run cargo +nightly check with the driver; returns wall seconds."""
    os.makedirs(outdir, exist_ok=True)
    os.makedirs(target_dir, exist_ok=True)
    # cargo's freshness cache would skip the driver: forget the member crate only
    fp = os.path.join(target_dir, "debug", ".fingerprint")
    if os.path.isdir(fp):
        for d in os.listdir(fp):
            if d.startswith(crate + "-") or d.startswith(crate.replace("_", "-") + "-"):
                shutil.rmtree(os.path.join(fp, d), ignore_errors=True)
    for f in ("bodies.jsonl", "meta.json"):
        try:
            os.remove(os.path.join(outdir, f))
        except FileNotFoundError:
            pass
    env = dict(os.environ)
    env["LD_LIBRARY_PATH"] = nightly_sysroot() + "/lib:" + env.get("LD_LIBRARY_PATH", "")
    env["RUSTFLAGS"] = "-Zmir-opt-level=0 -Awarnings"
    env["RUSTC_WORKSPACE_WRAPPER"] = DRIVER
    env["ILFACTS_OUT"] = outdir
    env["ILFACTS_CRATE"] = crate
    env["CARGO_TARGET_DIR"] = target_dir
    env["CARGO_NET_OFFLINE"] = "true"
    env.pop("RUSTC_WRAPPER", None)
    t = time.time()
    p = subprocess.run(
        ["cargo", "+nightly", "check", "--offline", "--lib", "--quiet"],
        cwd=repo, env=env, stdout=subprocess.PIPE, stderr=subprocess.STDOUT, text=True,
    )
    dt = time.time() - t
    if p.returncode != 0 or not os.path.exists(os.path.join(outdir, "bodies.jsonl")):
        sys.stderr.write(p.stdout[-4000:])
        raise RuntimeError("fact extraction failed (the tree does not type-check, or the driver was skipped)")
    return dt


def run_ilsyn(repo, outdir):
    os.makedirs(outdir, exist_ok=True)
    out = os.path.join(outdir, "syn.json")
    p = subprocess.run([ILSYN, os.path.join(repo, "src"), out], stdout=subprocess.PIPE, stderr=subprocess.STDOUT, text=True)
    if p.returncode != 0 or not os.path.exists(out):
        sys.stderr.write(p.stdout[-4000:])
        raise RuntimeError("ilsyn failed")


def ensure_facts(repo=None, cold=False, want_syn=True):
    """Returns (facts_dir, info). Re-extracts iff the source hash changed."""
    repo = repo or REPO
    h = source_hash(repo)
    d = os.path.join(CACHE, "facts", h)
    info = {"source_hash": h, "extracted": False, "extract_s": 0.0, "cold": cold}
    ok = os.path.exists(os.path.join(d, "bodies.jsonl")) and os.path.exists(os.path.join(d, "meta.json"))
    if want_syn:
        ok = ok and os.path.exists(os.path.join(d, "syn.json"))
    def _ready():
        r = os.path.exists(os.path.join(d, "bodies.jsonl")) and os.path.exists(os.path.join(d, "meta.json"))
        return r and (not want_syn or os.path.exists(os.path.join(d, "syn.json")))
    lockf = None
    if not ok or cold:
        # extractions share one warm target directory: serialise them (concurrent quick commands, variant runs)
        import fcntl
        os.makedirs(CACHE, exist_ok=True)
        lockf = open(os.path.join(CACHE, "extract.lock"), "w")
        fcntl.flock(lockf, fcntl.LOCK_EX)
        if not cold and _ready():
            ok = True
    if not ok or cold:
        tmp = d + ".tmp%d" % os.getpid()
        shutil.rmtree(tmp, ignore_errors=True)
        target = os.path.join(CACHE, "target")
        if cold:
            target = os.path.join(CACHE, "target-cold-%d" % os.getpid())
        try:
            info["extract_s"] = run_driver(repo, tmp, target)
            if want_syn:
                run_ilsyn(repo, tmp)
        finally:
            if cold:
                shutil.rmtree(target, ignore_errors=True)
        build_index(tmp)
        shutil.rmtree(d, ignore_errors=True)
        os.rename(tmp, d)
        info["extracted"] = True
        # keep the cache small: drop other hashes' facts (they are cheap to rebuild)
        base = os.path.join(CACHE, "facts")
        ents = sorted((os.path.getmtime(os.path.join(base, e)), e) for e in os.listdir(base))
        for _, e in ents[:-150]:
            if ".tmp" not in e:
                shutil.rmtree(os.path.join(base, e), ignore_errors=True)
    if lockf is not None:
        lockf.close()
    try:
        os.utime(d, None)  # mark as recently used (pruning keeps the most recent)
    except OSError:
        pass
    return d, info


def build_index(d):
    """One full pass over bodies.jsonl: byte offsets per body, the call graph
    (with class-hierarchy expansion of dyn calls, closure-creation and fn-item
    edges) and an inverted callee-name index, so that checks parse only the
    bodies they look at."""
    import gc
    from .core import Facts
    gc.disable()
    try:
        bodies = {}
        offsets = {}
        with open(os.path.join(d, "bodies.jsonl"), "rb") as fh:
            pos = 0
            for line in fh:
                b = json.loads(line)
                bodies[b["fn"]] = b
                offsets[b["fn"]] = [pos, len(line)]
                pos += len(line)
        with open(os.path.join(d, "meta.json")) as fh:
            meta = json.load(fh)
        F = Facts({"bodies": bodies, "meta": meta, "syn": None})
        cg = F.callgraph()
        by_name = {}
        ncalls = 0
        for name in bodies:
            f = F.fn(name)
            for c in f.calls():
                ncalls += 1
                for nm in c.names():
                    by_name.setdefault(nm, set()).add(name)
        idx = {
            "offsets": offsets,
            "cg": {k: sorted(v) for k, v in cg.items()},
            "by_name": {k: sorted(v) for k, v in by_name.items()},
            "unknown_callees": F.unknown_callees,
            "call_terminators": ncalls,
            "files": {n: [b["file"], b["line"]] for n, b in bodies.items()},
        }
        with open(os.path.join(d, "index.json.tmp"), "w") as fh:
            json.dump(idx, fh)
        os.rename(os.path.join(d, "index.json.tmp"), os.path.join(d, "index.json"))
    finally:
        gc.enable()


class LazyBodies:
    """mapping fn-name -> body dict, parsed on demand from bodies.jsonl"""

    def __init__(self, path, offsets):
        self.path = path
        self.offsets = offsets
        self.cache = {}
        self.fh = open(path, "rb")

    def __contains__(self, k):
        return k in self.offsets

    def __iter__(self):
        return iter(self.offsets)

    def __len__(self):
        return len(self.offsets)

    def keys(self):
        return self.offsets.keys()

    def get(self, k, default=None):
        if k not in self.offsets:
            return default
        return self[k]

    def __getitem__(self, k):
        b = self.cache.get(k)
        if b is None:
            off, ln = self.offsets[k]
            self.fh.seek(off)
            b = json.loads(self.fh.read(ln))
            self.cache[k] = b
        return b


def load_facts(d):
    """Lazy facts: index + meta + syntax tables; bodies parsed on demand."""
    ip = os.path.join(d, "index.json")
    if not os.path.exists(ip):
        build_index(d)
    with open(ip) as fh:
        idx = json.load(fh)
    with open(os.path.join(d, "meta.json")) as fh:
        meta = json.load(fh)
    syn = None
    sp = os.path.join(d, "syn.json")
    if os.path.exists(sp):
        with open(sp) as fh:
            syn = json.load(fh)
    bodies = LazyBodies(os.path.join(d, "bodies.jsonl"), idx["offsets"])
    return {"bodies": bodies, "meta": meta, "syn": syn, "index": idx}


if __name__ == "__main__":
    d, info = ensure_facts(want_syn=os.path.exists(ILSYN))
    print(d, info)
