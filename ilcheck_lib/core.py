"""Rule-engine primitives over the extracted facts (MIR bodies + syntax tables).

Everything here is static: it reads the fact files produced from the current
source of the repository and never runs inputlayer.
"""
import re
from collections import defaultdict, deque


class CheckError(Exception):
    """Fail-closed condition: missing anchor, count below floor, extractor
    disagreement. Reported as CHECK-ERROR (exit 2), never as a VIOLATION."""


# --------------------------------------------------------------------------- places

def base(place):
    return place["l"]


def proj(place):
    return place.get("p", [])


def op_place(op):
    """place of a copy/move operand, else None"""
    if op is None:
        return None
    if "c" in op:
        return op["c"]
    if "m" in op:
        return op["m"]
    return None


def op_local(op):
    p = op_place(op)
    return None if p is None else p["l"]


def op_const(op):
    """(type, value-text) for constants"""
    if op is not None and "k" in op and "c" not in op and "m" not in op:
        return (op["k"], op.get("v", op.get("t")))
    return None


def place_fields(place):
    """[(adt, field)] along the projection"""
    out = []
    for e in proj(place):
        if isinstance(e, dict) and "f" in e:
            out.append((e.get("a", ""), e["f"]))
    return out


def rv_operands(rv):
    """all operands (as operand dicts) and places read by an rvalue"""
    k = rv.get("k")
    ops = []
    if k in ("use", "repeat", "cast", "un"):
        ops.append(rv["o"])
    elif k == "bin":
        ops += [rv["a"], rv["b"]]
    elif k == "agg":
        ops += rv["ops"]
    elif k in ("ref", "rawptr", "discr"):
        ops.append({"c": rv["p"]})
    return ops


def place_locals(place):
    ls = [place["l"]]
    for e in proj(place):
        if isinstance(e, dict) and "i" in e:
            ls.append(e["i"])
    return ls


# --------------------------------------------------------------------------- call sites

class Call:
    __slots__ = ("fn", "bb", "t")

    def __init__(self, fn, bb, t):
        self.fn = fn
        self.bb = bb
        self.t = t

    @property
    def static(self):
        f = self.t.get("f")
        return f["d"] if f else None

    @property
    def static_args(self):
        f = self.t.get("f")
        return f["da"] if f else None

    @property
    def resolved(self):
        f = self.t.get("f")
        if not f:
            return None
        return f.get("r", f["d"])

    @property
    def resolved_args(self):
        f = self.t.get("f")
        if not f:
            return None
        return f.get("ra", f.get("da"))

    @property
    def is_virtual(self):
        f = self.t.get("f")
        return bool(f and f.get("virt"))

    @property
    def trait(self):
        f = self.t.get("f")
        return f.get("tr") if f else None

    @property
    def indirect(self):
        return "f" not in self.t

    @property
    def args(self):
        return self.t["args"]

    @property
    def dst(self):
        return self.t["dst"]

    @property
    def line(self):
        return self.t.get("fl") or self.t.get("ln")

    @property
    def expanded(self):
        return bool(self.t.get("x"))

    @property
    def target(self):
        return self.t.get("to")

    def names(self):
        """all names this call may be known under"""
        n = set()
        f = self.t.get("f")
        if f:
            n.add(f["d"])
            if "r" in f:
                n.add(f["r"])
        return n

    def matches(self, pats):
        """pats: iterable of exact names or compiled regexes, matched against the
        static and resolved def paths (and their generic-arg renderings)."""
        f = self.t.get("f")
        if not f:
            return False
        cands = [f["d"], f.get("r"), f.get("da"), f.get("ra")]
        for p in pats:
            for c in cands:
                if c is None:
                    continue
                if isinstance(p, str):
                    if c == p:
                        return True
                elif p.search(c):
                    return True
        return False

    def where(self):
        return "%s:%s" % (self.fn.file, self.line)

    def __repr__(self):
        return "<call %s @%s bb%d>" % (self.resolved or "indirect", self.where(), self.bb)


class Fn:
    """One MIR body."""

    def __init__(self, b):
        self.b = b
        self.name = b["fn"]
        self.file = b["file"]
        self.line = b["line"]
        self.end = b["end"]
        self.bbs = b["bb"]
        self.n = len(self.bbs)
        self.locals = b["locals"]
        self._succ = None
        self._pred = None
        self._calls = None
        self._idom = None
        self._names = None

    # ---- CFG
    def term(self, i):
        return self.bbs[i]["t"]

    def stmts(self, i):
        return self.bbs[i]["s"]

    def succ(self, i):
        """normal (non-unwind) successors"""
        if self._succ is None:
            s = []
            for bb in self.bbs:
                t = bb["t"]
                k = t["k"]
                if k == "goto":
                    s.append([t["to"]])
                elif k == "switch":
                    out = []
                    for _, tgt in t["tg"]:
                        if tgt not in out:
                            out.append(tgt)
                    if t["else"] not in out:
                        out.append(t["else"])
                    s.append(out)
                elif k in ("call", "drop", "assert", "yield"):
                    s.append([t["to"]] if t.get("to") is not None else [])
                else:
                    s.append([])
            self._succ = s
        return self._succ[i]

    def pred(self, i):
        if self._pred is None:
            p = [[] for _ in range(self.n)]
            for a in range(self.n):
                for b in self.succ(a):
                    p[b].append(a)
            self._pred = p
        return self._pred[i]

    def is_cleanup(self, i):
        return bool(self.bbs[i].get("cu"))

    def reachable_from(self, starts, stop=(), include_start=True):
        """blocks reachable along normal edges from `starts`; blocks in `stop`
        are not expanded (and not entered)."""
        stop = set(stop)
        seen = set()
        dq = deque()
        for s in starts:
            if s in stop:
                continue
            if s not in seen:
                seen.add(s)
                dq.append(s)
        while dq:
            a = dq.popleft()
            for b in self.succ(a):
                if b in stop or b in seen:
                    continue
                seen.add(b)
                dq.append(b)
        return seen

    def live_blocks(self):
        return self.reachable_from([0])

    def return_blocks(self):
        return [i for i in range(self.n) if self.term(i)["k"] == "return" and not self.is_cleanup(i)]

    def path(self, start, goals, stop=()):
        """shortest normal-edge path start -> any goal avoiding `stop`; list of bbs or None"""
        goals = set(goals)
        stop = set(stop)
        if start in stop:
            return None
        prev = {start: None}
        dq = deque([start])
        while dq:
            a = dq.popleft()
            if a in goals:
                out = []
                while a is not None:
                    out.append(a)
                    a = prev[a]
                return out[::-1]
            for b in self.succ(a):
                if b in stop or b in prev:
                    continue
                prev[b] = a
                dq.append(b)
        return None

    # ---- dominators (iterative, on normal edges from bb0)
    def idom(self):
        if self._idom is not None:
            return self._idom
        order = []
        seen = set()
        stack = [(0, iter(self.succ(0)))]
        seen.add(0)
        while stack:
            n, it = stack[-1]
            adv = False
            for m in it:
                if m not in seen:
                    seen.add(m)
                    stack.append((m, iter(self.succ(m))))
                    adv = True
                    break
            if not adv:
                order.append(n)
                stack.pop()
        rpo = order[::-1]
        idx = {n: i for i, n in enumerate(rpo)}
        idom = {0: 0}
        changed = True
        while changed:
            changed = False
            for n in rpo[1:]:
                new = None
                for p in self.pred(n):
                    if p in idom:
                        if new is None:
                            new = p
                        else:
                            a, b = p, new
                            while a != b:
                                while idx[a] > idx[b]:
                                    a = idom[a]
                                while idx[b] > idx[a]:
                                    b = idom[b]
                            new = a
                if new is not None and idom.get(n) != new:
                    idom[n] = new
                    changed = True
        self._idom = idom
        return idom

    def dominates(self, a, b):
        """block a dominates block b (a == b counts)"""
        idom = self.idom()
        if b not in idom or a not in idom:
            return False
        while True:
            if a == b:
                return True
            if b == 0:
                return False
            b = idom[b]

    # ---- calls
    def calls(self):
        if self._calls is None:
            live = self.live_blocks_all()
            self._calls = [Call(self, i, bb["t"]) for i, bb in enumerate(self.bbs) if bb["t"]["k"] == "call" and i in live]
        return self._calls

    def live_blocks_all(self):
        """blocks reachable including unwind edges (i.e. not dead code)"""
        seen = {0}
        dq = deque([0])
        while dq:
            a = dq.popleft()
            t = self.term(a)
            nx = list(self.succ(a))
            if t.get("uw") is not None:
                nx.append(t["uw"])
            if t["k"] == "yield" and t.get("drop") is not None:
                nx.append(t["drop"])
            for b in nx:
                if b not in seen:
                    seen.add(b)
                    dq.append(b)
        return seen

    def normal_calls(self):
        """calls on non-cleanup blocks reachable by normal edges"""
        live = self.live_blocks()
        return [c for c in self.calls() if c.bb in live and not self.is_cleanup(c.bb)]

    def calls_to(self, *pats):
        return [c for c in self.normal_calls() if c.matches(pats)]

    # ---- names
    def local_named(self, name):
        """local index of the user variable `name` (first debuginfo entry that is a bare local)"""
        v = self.b["names"].get(name)
        if v is not None and not v.get("p"):
            return v["l"]
        return None

    def need_local(self, name):
        """like local_named, but a missing name is a CHECK-ERROR (the anchor was renamed), never a silent 'no'"""
        l = self.local_named(name)
        if l is None:
            raise CheckError("%s: no local/parameter named `%s` (renamed? update the rule's anchor)" % (self.name, name))
        return l

    def name_of(self, local):
        if self._names is None:
            self._names = {}
            for k, v in self.b["names"].items():
                if not v.get("p"):
                    self._names.setdefault(v["l"], k)
        return self._names.get(local)

    def ty(self, local):
        return self.locals[local]

    # ---- error exits
    def error_blocks(self):
        """blocks that commit the function to an error return: `?` residual
        propagation into _0 and explicit `Err(..)` written to the return place."""
        err_locals = set()
        for i in range(self.n):
            for st in self.stmts(i):
                rv = st["r"]
                if rv.get("k") == "agg" and rv.get("ak") == "adt" and rv.get("adt") == "std::result::Result" and rv.get("var") == "Err":
                    if not proj(st["d"]):
                        err_locals.add(st["d"]["l"])
        # a local counts as error-valued only if every assignment to it is an Err aggregate
        assigned_other = set()
        for i in range(self.n):
            for st in self.stmts(i):
                d = st["d"]
                if proj(d):
                    continue
                rv = st["r"]
                if d["l"] in err_locals and not (rv.get("k") == "agg" and rv.get("var") == "Err" and rv.get("adt") == "std::result::Result"):
                    assigned_other.add(d["l"])
            t = self.term(i)
            if t["k"] == "call" and not proj(t["dst"]) and t["dst"]["l"] in err_locals:
                assigned_other.add(t["dst"]["l"])
        err_locals -= assigned_other
        out = set()
        for i in range(self.n):
            if self.is_cleanup(i):
                continue
            for st in self.stmts(i):
                d = st["d"]
                if d["l"] == 0 and not proj(d):
                    rv = st["r"]
                    if rv.get("k") == "agg" and rv.get("var") == "Err" and rv.get("adt") == "std::result::Result":
                        out.add(i)
                    elif rv.get("k") == "use" and op_local(rv["o"]) in err_locals and not proj(op_place(rv["o"])):
                        out.add(i)
            t = self.term(i)
            if t["k"] == "call" and t["dst"]["l"] == 0 and not proj(t["dst"]):
                f = t.get("f")
                if f and f["d"] in ("std::ops::FromResidual::from_residual",):
                    out.add(i)
        return out

    def success_returns(self):
        """return blocks reachable from entry without passing an error block"""
        eb = self.error_blocks()
        reach = self.reachable_from([0], stop=eb)
        return [r for r in self.return_blocks() if r in reach], eb

    def where(self, bb=None, line=None):
        if line is None and bb is not None:
            line = self.term(bb).get("ln")
        if line is None:
            line = self.line
        return "%s:%s" % (self.file, line)

    # ---- field accesses
    def field_accesses(self):
        """yield (bb, kind, adt, field, line, place) for every field projection
        appearing in the body. kind: 'w' (assigned / &mut / passed by move into call dst),
        'r' (read / shared borrow)."""
        for i in range(self.n):
            if i not in self.live_blocks_all():
                continue
            for st in self.stmts(i):
                d = st["d"]
                for (a, f) in place_fields(d)[-1:]:
                    yield (i, "w", a, f, st["ln"], d)
                for (a, f) in place_fields(d)[:-1]:
                    yield (i, "wp", a, f, st["ln"], d)
                rv = st["r"]
                k = rv.get("k")
                if k in ("ref", "rawptr"):
                    kind = "w" if rv.get("mut") or k == "rawptr" else "r"
                    fs = place_fields(rv["p"])
                    for j, (a, f) in enumerate(fs):
                        yield (i, (kind + "b") if True else kind, a, f, st["ln"], rv["p"])
                else:
                    for o in rv_operands(rv):
                        p = op_place(o)
                        if p:
                            for (a, f) in place_fields(p):
                                yield (i, "r", a, f, st["ln"], p)
            t = self.term(i)
            if t["k"] == "call":
                for o in t["args"]:
                    p = op_place(o)
                    if p:
                        for (a, f) in place_fields(p):
                            yield (i, "r", a, f, t.get("ln"), p)
                for (a, f) in place_fields(t["dst"])[-1:]:
                    yield (i, "w", a, f, t.get("ln"), t["dst"])
            elif t["k"] == "switch":
                p = op_place(t["on"])
                if p:
                    for (a, f) in place_fields(p):
                        yield (i, "r", a, f, t.get("ln"), p)

    # ---- enum switches
    def enum_switches(self, adt=None):
        """[(bb, adt, place, {variant: target_bb}, otherwise_bb)] for switchInt on a discriminant
        read in the same block"""
        out = []
        live = self.live_blocks_all()
        for i in range(self.n):
            if i not in live:
                continue
            t = self.term(i)
            if t["k"] != "switch":
                continue
            l = op_local(t["on"])
            if l is None:
                continue
            dis = None
            for st in self.stmts(i):
                if st["r"].get("k") == "discr" and st["d"]["l"] == l and not proj(st["d"]):
                    dis = st["r"]
            if dis is None or "adt" not in dis:
                continue
            if adt is not None and dis["adt"] != adt:
                continue
            m = {}
            for v, tgt in t["tg"]:
                name = dis["vs"].get(v)
                if name is not None:
                    m[name] = tgt
            out.append((i, dis["adt"], dis["p"], m, t["else"]))
        return out

    def arm_region(self, targets, target, stop=()):
        """blocks reachable from `target` that are not reachable from any *other* arm target
        (the arm's exclusive region). `stop`: blocks not to pass (the switch block itself, so that a
        dispatch inside a loop does not make every arm reach every other arm through the back edge)"""
        mine = self.reachable_from([target], stop=stop)
        others = set()
        for t in set(targets):
            if t != target:
                others |= self.reachable_from([t], stop=stop)
        return mine - others

    # ---- coarse intraprocedural may-derive slice
    def _flow_edges(self, through_calls):
        """local -> set(local) may-derive edges (cached)"""
        key = "_fe%d" % (1 if through_calls else 0)
        if getattr(self, key, None) is not None:
            return getattr(self, key)
        E = defaultdict(set)
        refs = defaultdict(set)
        for i in range(self.n):
            for st in self.stmts(i):
                rv = st["r"]
                if rv.get("k") in ("ref", "rawptr") and not proj(st["d"]):
                    refs[st["d"]["l"]].add(rv["p"]["l"])
        call_edges = []
        # pointer provenance: P = cast/use/&(place rooted at Q) with P of pointer/reference type
        ptr_src = defaultdict(set)
        for i in range(self.n):
            for st in self.stmts(i):
                if proj(st["d"]):
                    continue
                pl_ = st["d"]["l"]
                ty_ = self.locals[pl_]
                if not (ty_.startswith("*") or ty_.startswith("&")):
                    continue
                rv = st["r"]
                if rv.get("k") in ("cast", "use"):
                    q = op_place(rv["o"])
                    if q:
                        ptr_src[pl_].add(q["l"])
                elif rv.get("k") in ("ref", "rawptr"):
                    ptr_src[pl_].add(rv["p"]["l"])
        for i in range(self.n):
            for st in self.stmts(i):
                d = st["d"]["l"]
                dsts = [d]
                pj = proj(st["d"])
                if pj and pj[0] == "*":
                    # a store through a pointer also reaches what the pointer was derived from
                    seen_, work_ = {d}, [d]
                    while work_:
                        x = work_.pop()
                        for q in ptr_src.get(x, ()):
                            if q not in seen_:
                                seen_.add(q)
                                work_.append(q)
                    dsts = list(seen_)
                for o in rv_operands(st["r"]):
                    p = op_place(o)
                    if p:
                        for l in place_locals(p):
                            for dd in dsts:
                                E[l].add(dd)
            t = self.term(i)
            if t["k"] == "call" and through_calls:
                srcs = []
                for o in t["args"]:
                    p = op_place(o)
                    if p:
                        srcs += place_locals(p)
                dsts = [t["dst"]["l"]]
                for o in t["args"]:
                    l = op_local(o)
                    if l is not None and "&mut" in self.locals[l]:
                        dsts.append(l)
                        dsts += list(refs.get(l, ()))
                call_edges.append((i, srcs, dsts))
                for s_ in srcs:
                    for d_ in dsts:
                        E[s_].add(d_)
        setattr(self, key, E)
        if through_calls:
            self._call_edges = call_edges
        return E

    def derive(self, seeds, through_calls=True, stop_calls=()):
        """flow-insensitive closure: locals that may be derived from `seeds`
        (a set of local indices). Assignments propagate from any operand to the
        destination's base local; calls propagate from every argument to the
        destination and to the referents of &mut arguments."""
        E = self._flow_edges(through_calls)
        blocked = set()
        if stop_calls and through_calls:
            # edges contributed only by stop calls are not followed: recompute without them
            E2 = defaultdict(set)
            base_e = self._flow_edges(False)
            for k, v in base_e.items():
                E2[k] |= v
            for (i, srcs, dsts) in self._call_edges:
                if Call(self, i, self.term(i)).matches(stop_calls):
                    continue
                for s_ in srcs:
                    for d_ in dsts:
                        E2[s_].add(d_)
            E = E2
        S = set(seeds)
        dq = deque(S)
        while dq:
            a = dq.popleft()
            for b in E.get(a, ()):
                if b not in S:
                    S.add(b)
                    dq.append(b)
        return S


_FMT_ARG = re.compile(r"^core::fmt::rt::Argument::<'_>::new_(display|debug)::<(.+)>$")
_TOSTRING = re.compile(r"^<(.+) as std::string::ToString>::to_string$")


def strip_refs(ty):
    ty = ty.strip()
    while True:
        if ty.startswith("&mut "):
            ty = ty[5:].strip()
        elif ty.startswith("&"):
            ty = re.sub(r"^&('\w+ )?", "", ty).strip()
        elif ty.startswith("std::boxed::Box<") and ty.endswith(">"):
            ty = ty[len("std::boxed::Box<"):-1].strip()
        elif ty.startswith("std::sync::Arc<") and ty.endswith(">"):
            ty = ty[len("std::sync::Arc<"):-1].strip()
        else:
            return ty


def fmt_targets(fr):
    """Display/Debug impl bodies that a formatting call will run"""
    da = fr.get("da") or ""
    m = _FMT_ARG.match(da)
    if m:
        tr = "std::fmt::Display" if m.group(1) == "display" else "std::fmt::Debug"
        return ["<%s as %s>::fmt" % (strip_refs(m.group(2)), tr)]
    m = _TOSTRING.match(da)
    if m:
        return ["<%s as std::fmt::Display>::fmt" % strip_refs(m.group(1))]
    return []


# --------------------------------------------------------------------------- whole program

class Facts:
    def __init__(self, raw):
        self.raw = raw
        self.meta = raw["meta"]
        self.adts = raw["meta"]["adts"]
        self.syn = raw.get("syn")
        self._fns = {}
        self.bodies = raw["bodies"]
        self._cg = None
        self._rcg = None
        self._children = None
        self.unknown_callees = None
        self._syn_index = None
        idx = raw.get("index")
        self.index = idx
        if idx is not None:
            self._cg = defaultdict(set, {k: set(v) for k, v in idx["cg"].items()})
            self.unknown_callees = idx["unknown_callees"]
            self._by_name = idx["by_name"]
        else:
            self._by_name = None

    def raw_line(self, name):
        """raw JSON text of a body (cheap substring pre-filter before parsing)"""
        b = self.bodies
        if hasattr(b, "offsets"):
            off, ln = b.offsets[name]
            b.fh.seek(off)
            return b.fh.read(ln).decode("utf-8", "replace")
        import json as _j
        return _j.dumps(b[name], separators=(",", ":"))

    # ---- lookup
    def has(self, name):
        return name in self.bodies

    def fn(self, name):
        f = self._fns.get(name)
        if f is None:
            b = self.bodies.get(name)
            if b is None:
                raise CheckError("anchor function not found in the crate: %s" % name)
            f = Fn(b)
            self._fns[name] = f
        return f

    def fns(self, pred=None):
        for name in self.bodies:
            if pred is None or pred(name):
                yield self.fn(name)

    def fns_matching(self, regex):
        r = re.compile(regex)
        return [self.fn(n) for n in self.bodies if r.search(n)]

    def children(self, name):
        """closures / coroutines whose typeck root chain passes through `name`
        (direct syntactic nesting by def-path prefix)."""
        if self._children is None:
            ch = defaultdict(list)
            for n in self.bodies:
                if "::{closure#" in n:
                    parent = n[: n.rindex("::{closure#")]
                    ch[parent].append(n)
            self._children = ch
        return self._children.get(name, [])

    def with_closures(self, name):
        """name plus all (transitively) nested closures/coroutine bodies"""
        out = [name]
        i = 0
        while i < len(out):
            out += self.children(out[i])
            i += 1
        return out

    # ---- call graph
    def callgraph(self):
        if self._cg is not None:
            return self._cg
        cg = defaultdict(set)
        impls = defaultdict(list)  # trait method -> impl methods
        for im in self.meta["impls"]:
            for tm, m in im["methods"].items():
                impls[tm].append(m)
        unknown = []
        for name in self.bodies:
            f = self.fn(name)
            live = f.live_blocks_all()
            for i in live:
                bb = f.bbs[i]
                for st in bb["s"]:
                    rv = st["r"]
                    if rv.get("k") == "agg" and rv.get("ak") in ("closure", "coroutine", "coroutine_closure"):
                        if rv["def"] in self.bodies:
                            cg[name].add(rv["def"])
                    # function items / closures mentioned as values (passed as callbacks)
                    for o in rv_operands(rv):
                        fnc = o.get("fn") if isinstance(o, dict) else None
                        if fnc:
                            for nm in [fnc.get("r"), fnc["d"]] + fmt_targets(fnc):
                                if nm in self.bodies:
                                    cg[name].add(nm)
                t = bb["t"]
                if t["k"] != "call":
                    continue
                fr = t.get("f")
                if fr is None:
                    unknown.append((name, t.get("ln"), t.get("fty")))
                    continue
                r = fr.get("r")
                # formatting edges: Argument::new_display::<&T> / T::to_string() run <T as Display>::fmt
                for tgt in fmt_targets(fr):
                    if tgt in self.bodies:
                        cg[name].add(tgt)
                if fr.get("virt"):
                    for m in impls.get(fr["d"], []):
                        if m in self.bodies:
                            cg[name].add(m)
                    continue
                if r is not None and r in self.bodies:
                    cg[name].add(r)
                elif r is None:
                    # unresolved (generic) trait call: expand over the crate's impls, or the default body
                    if fr["d"] in self.bodies:
                        cg[name].add(fr["d"])
                    for m in impls.get(fr["d"], []):
                        if m in self.bodies:
                            cg[name].add(m)
                elif fr["d"] in self.bodies:
                    cg[name].add(fr["d"])
                for o in t["args"]:
                    fnc = o.get("fn")
                    if fnc:
                        for nm in [fnc.get("r"), fnc["d"]] + fmt_targets(fnc):
                            if nm in self.bodies:
                                cg[name].add(nm)
        self._cg = cg
        self.unknown_callees = unknown
        return cg

    def rcallgraph(self):
        if self._rcg is None:
            r = defaultdict(set)
            for a, bs in self.callgraph().items():
                for b in bs:
                    r[b].add(a)
            self._rcg = r
        return self._rcg

    def reach(self, starts, stop=()):
        """set of function names reachable from starts in the call graph (starts included)"""
        cg = self.callgraph()
        stop = set(stop)
        seen = set()
        dq = deque()
        for s in starts:
            if s not in seen and s not in stop:
                seen.add(s)
                dq.append(s)
        while dq:
            a = dq.popleft()
            for b in cg.get(a, ()):
                if b not in seen and b not in stop:
                    seen.add(b)
                    dq.append(b)
        return seen

    def reach_path(self, start, goals, stop=()):
        cg = self.callgraph()
        goals = set(goals)
        stop = set(stop)
        prev = {start: None}
        dq = deque([start])
        while dq:
            a = dq.popleft()
            if a in goals and a != start:
                out = []
                while a is not None:
                    out.append(a)
                    a = prev[a]
                return out[::-1]
            for b in sorted(cg.get(a, ())):
                if b not in prev and b not in stop:
                    prev[b] = a
                    dq.append(b)
        return None

    def callers(self, name):
        return sorted(self.rcallgraph().get(name, ()))

    def call_sites_of(self, *pats, within=None):
        out = []
        if within is None and self._by_name is not None:
            cand = set()
            for nm, fns in self._by_name.items():
                for p in pats:
                    if (isinstance(p, str) and p == nm) or (not isinstance(p, str) and p.search(nm)):
                        cand.update(fns)
                        break
            names = sorted(cand)
        else:
            names = within if within is not None else list(self.bodies)
        for n in names:
            f = self.fn(n)
            for c in f.calls():
                if c.matches(pats):
                    out.append(c)
        return out

    # ---- ADTs
    def adt(self, name):
        a = self.adts.get(name)
        if a is None:
            raise CheckError("anchor type not found in the crate: %s" % name)
        return a

    def variants(self, name):
        return [v["name"] for v in self.adt(name)["variants"]]

    # ---- syntax tables
    def syn_fn(self, name, file=None, impl_self=None, impl_trait=None, line=None):
        if self.syn is None:
            raise CheckError("syntax tables not available")
        c = []
        for f in self.syn["fns"]:
            if f["name"] != name:
                continue
            if file is not None and f["file"] != file:
                continue
            if impl_self is not None and f.get("impl_self") != impl_self:
                continue
            if impl_trait is not None and (f.get("impl_trait") or "") != impl_trait:
                continue
            if line is not None and not (f["line"] <= line <= f["end"]):
                continue
            c.append(f)
        if len(c) != 1:
            raise CheckError("syntax anchor %s (file=%s impl=%s trait=%s): %d candidates" % (name, file, impl_self, impl_trait, len(c)))
        return c[0]

    def syn_for(self, fn):
        """syntax record of a MIR body (matched by file + line containment + name)"""
        short = fn.name.split("::")[-1]
        if short.startswith("{closure"):
            raise CheckError("no syntax record for closure %s" % fn.name)
        if self.syn is None:
            raise CheckError("syntax tables not available")
        c = [f for f in self.syn["fns"] if f["file"] == fn.file and f["name"] == short and f["line"] <= fn.line <= f["end"] + 0 or (f["file"] == fn.file and f["name"] == short and fn.line <= f["line"] <= fn.end)]
        if len(c) != 1:
            raise CheckError("syntax record for %s: %d candidates" % (fn.name, len(c)))
        return c[0]


# --------------------------------------------------------------------------- syntax helpers

def syn_walk(node):
    """pre-order generator over all dict nodes of a syntax tree"""
    stack = [node]
    while stack:
        n = stack.pop()
        if isinstance(n, dict):
            yield n
            for v in reversed(list(n.values())):
                if isinstance(v, (dict, list)):
                    stack.append(v)
        elif isinstance(n, list):
            for v in reversed(n):
                if isinstance(v, (dict, list)):
                    stack.append(v)


def pat_paths(p):
    """variant paths named at the top level of a pattern (through refs and or-patterns);
    returns (paths, has_wild)"""
    k = p.get("p")
    if k == "or":
        ps, w = [], False
        for c in p["cases"]:
            a, b = pat_paths(c)
            ps += a
            w = w or b
        return ps, w
    if k == "ref":
        return pat_paths(p["pat"])
    if k in ("ts", "struct", "path"):
        return [p["path"]], False
    if k == "wild":
        return [], True
    if k == "ident":
        if p.get("sub"):
            return pat_paths(p["sub"])
        # a bare identifier binds everything (or names a unit variant/const: caller decides)
        return [], True
    return [], False


def pat_bindings(p):
    """names bound by a pattern"""
    out = []
    for n in syn_walk(p):
        if n.get("p") == "ident":
            out.append(n["name"])
    return out


def expr_paths(e):
    return [n["p"] for n in syn_walk(e) if n.get("e") == "path"]


def expr_mcalls(e):
    return [n["m"] for n in syn_walk(e) if n.get("e") == "mcall"]


def last_seg(path):
    return path.split("::")[-1]
