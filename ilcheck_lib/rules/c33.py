"""C33 - declared schemas are enforced."""
import re
from ..core import CheckError, op_local, proj, syn_walk, last_seg
from . import common, dur

SE = "storage_engine::StorageEngine"
KG = "storage_engine::KnowledgeGraph"
VE = "schema::validator::ValidationEngine"


err_propagated = common.err_propagated


def run(F, ctx):
    ctx.explanation = (
        "Decides: (a) schema validation of exactly the (relation, tuples) being inserted dominates every persist call of the storage engine's insert entry point, "
        "and its failure edge cannot reach a persist call (so every caller - Insert, Update, any future one - is covered, and nothing is applied before the whole "
        "batch validated); (b) the validator chain rejects the batch iff some tuple produced a violation: the batch's Ok is built only on the empty-violations side, "
        "every tuple's violations are collected, a tuple's Ok is built only on its empty-violations side, and both the arity comparison and the per-column type test feed "
        "the violation list; (c) the type-compatibility table SchemaType::matches, evaluated arm by arm (first match wins) over every (declared type, value kind) pair, "
        "accepts exactly the pairs of the reference table and compares the length with the declared dimension for dimensioned vectors."
    )
    # ---- a
    ctx.rule("R-C33-a", "validation dominates persist in insert_tuples_into; failing edge cannot reach persist", floor=2)
    f = F.fn(SE + "::insert_tuples_into")
    vs = [c for c in f.normal_calls() if c.resolved in (KG + "::validate_tuples", SE + "::validate_tuples_in")]
    pcs = [c for c in f.normal_calls() if (c.static or "").startswith("storage::persist::PersistBackend::")]
    if not pcs:
        raise CheckError("insert_tuples_into: no persist call")
    rel_l, tup_l = f.need_local("relation"), f.need_local("tuples")
    if rel_l is None or tup_l is None:
        raise CheckError("insert_tuples_into: parameters relation/tuples not found")
    good = None
    for v in vs:
        args_ok = any(op_local(a) in f.derive({rel_l}, through_calls=False) for a in v.args) and any(op_local(a) in f.derive({tup_l}, through_calls=True, stop_calls=[KG + "::validate_tuples"]) for a in v.args)
        dom = all(f.dominates(v.bb, p.bb) for p in pcs)
        prop, cont = err_propagated(f, v)
        if args_ok and dom and prop:
            good = v
    ctx.site("validate_tuples(relation, tuples) ≺ persist, error edge returns", f.where(), ok=good is not None, validate_calls=len(vs), persist_calls=len(pcs))
    if good is None:
        ctx.violation(SE + "::insert_tuples_into:R-C33-a:unvalidated-insert", "insert_tuples_into can reach persist.append without a dominating, error-propagating schema validation of the inserted (relation, tuples): a typed relation can store non-conforming tuples (e.g. through the handler's Update arm)", f.where())
    # every insertion entry of the storage engine funnels into insert_tuples_into (no second writer of user tuples)
    others = []
    for c in F.call_sites_of("storage::persist::PersistBackend::append"):
        n = c.fn.name
        if n.startswith(SE + "::") and n.split("::{closure")[0] not in (SE + "::insert_tuples_into", SE + "::delete_tuples_from"):
            others.append(c)
    for c in F.call_sites_of(KG + "::insert_in_memory"):
        n = c.fn.name.split("::{closure")[0]
        ok = n in (SE + "::insert_tuples_into",)
        ctx.site("insert_in_memory called from %s" % n, c.where(), ok=ok)
        if not ok:
            ctx.violation("%s:R-C33-a:second-insert-path" % n, "%s applies an insert in memory without going through insert_tuples_into (and its schema validation)" % n, c.where())
    ctx.end_rule()
    table(F, ctx)

    # ---- b
    ctx.rule("R-C33-b", "validator chain: batch/tuple Ok only on the empty-violations side; arity and type tests feed the violation list", floor=4)
    kv = F.fn(KG + "::validate_tuples")
    vb = [c for c in kv.normal_calls() if c.resolved == VE + "::validate_batch"]
    sg = [c for c in kv.normal_calls() if (c.resolved or "").endswith("SchemaCatalog::get")]
    ok = bool(vb) and bool(sg)
    if ok:
        rel = kv.derive({2}, through_calls=False)
        tup = kv.derive({3}, through_calls=False)
        ok = all(op_local(c.args[1]) in rel for c in sg) and all(op_local(c.args[2]) in tup for c in vb)
        sch = set()
        for c in sg:
            sch |= kv.derive({c.dst["l"]}, through_calls=False)
        ok = ok and all(op_local(c.args[1]) in sch for c in vb)
        ok = ok and all(err_propagated(kv, c)[0] for c in vb)
    ctx.site("KnowledgeGraph::validate_tuples validates `tuples` against the schema of `relation` and propagates the error", kv.where(), ok=ok)
    if not ok:
        ctx.violation(KG + "::validate_tuples:R-C33-b:wiring", "KnowledgeGraph::validate_tuples no longer validates its `tuples` against the declared schema of its `relation` with the error propagated", kv.where())

    def ok_only_when_empty(fname, label):
        g = F.fn(fname)
        okb = []
        for i in sorted(g.live_blocks()):
            for st in g.stmts(i):
                rv = st["r"]
                if rv.get("k") == "agg" and rv.get("adt") == "std::result::Result" and rv.get("var") == "Ok":
                    okb.append(i)
        emp = [c for c in g.normal_calls() if re.search(r"Vec::<.*Violation>::is_empty$", c.static_args or "")]
        good = False
        for c in emp:
            br = common.branch_on_result(g, c)
            if br and okb and all(g.dominates(br[2], b) for b in okb):
                good = True
        ctx.site(label, g.where(), ok=good, ok_blocks=len(okb), emptiness_tests=len(emp))
        if not good:
            ctx.violation("%s:R-C33-b:ok-not-guarded" % fname, "%s can return Ok although violations were recorded (its Ok is not confined to the empty-violations side)" % fname.split("::")[-1], g.where())
        return g

    g = ok_only_when_empty(VE + "::validate_batch", "validate_batch: Ok only if no violation")
    vt = [c for c in g.normal_calls() if c.resolved == VE + "::validate_tuple"]
    app = [c for c in g.normal_calls() if re.search(r"Vec::<.*Violation>::(append|extend|push)", c.static_args or "") or re.search(r"Vec<.*Violation> as std::iter::Extend", c.static_args or "")]
    loops = dur.loop_blocks(g)
    ok = bool(vt) and bool(app) and all(c.bb in loops for c in vt) and all(c.bb in loops for c in app)
    if ok:
        # the tuple handed to validate_tuple comes from iterating the `tuples` parameter
        it = g.derive({3}, through_calls=True)
        ok = all(op_local(c.args[2]) in it for c in vt)
    if ok:
        # no iteration may skip the validation: from the element-bearing arm of the loop's next() every path back to next() passes validate_tuple
        nx = [c for c in g.normal_calls() if (c.static or "") == "std::iter::Iterator::next" and c.bb in loops]
        for n_ in nx:
            res = g.derive({n_.dst["l"]}, through_calls=False)
            for (sb, sadt, spl, smm, sother) in g.enum_switches("std::option::Option"):
                if spl["l"] in res and "Some" in smm:
                    leak = g.path(smm["Some"], [n_.bb], stop={c.bb for c in vt})
                    if leak is not None:
                        ok = False
    ctx.site("validate_batch: every tuple validated, its violations collected", g.where(), ok=ok)
    if not ok:
        ctx.violation(VE + "::validate_batch:R-C33-b:collect", "validate_batch does not validate every tuple of the batch and collect its violations", g.where())
    t = ok_only_when_empty(VE + "::validate_tuple", "validate_tuple: Ok only if no violation")
    ar = [c for c in t.normal_calls() if (c.resolved or "").endswith("Tuple::arity")]
    sar = [c for c in t.normal_calls() if (c.resolved or "").endswith("RelationSchema::arity")]
    mt = [c for c in t.normal_calls() if (c.resolved or "").endswith("::matches") and "schema" in (c.resolved or "")]
    push = [c for c in t.normal_calls() if re.search(r"Vec::<.*Violation>::push$", c.static_args or "")]
    ok = bool(ar) and bool(sar) and bool(mt) and len(push) >= 2
    if ok:
        # the type test's failing edge leads to a push
        okm = False
        for c in mt:
            br = common.branch_on_result(t, c)
            if br and any(p.bb in t.reachable_from([br[1]]) and not t.dominates(br[2], p.bb) for p in push):
                okm = True
        ok = okm
    ctx.site("validate_tuple: arity comparison and per-column type test feed the violation list", t.where(), ok=ok, type_tests=len(mt), pushes=len(push))
    if not ok:
        ctx.violation(VE + "::validate_tuple:R-C33-b:tests", "validate_tuple no longer records a violation for an arity mismatch and for a column whose value does not match the declared type", t.where())
    ctx.end_rule()


# ---- c: the type-compatibility table --------------------------------------------------------------------------
# Reference: which value kinds conform to which declared type. Diagonal from the documentation of the two enums
# (src/schema/mod.rs: "Int maps to Int32 or Int64", "Float maps to Float64", symbols are strings at the data level,
# "dim: Some(n) enforces exact dimension; dim: None accepts any dimension", Any = no constraint); the three widenings
# (integer into float, Int64 into timestamp) are the ones the code documents in place and the suite exercises.
# Named aliases are resolved by the catalog, not by this table. Everything else (incl. Null) does not conform.
_ACCEPT = {
    "Int": {"Int32", "Int64"},
    "Float": {"Float64", "Int32", "Int64"},
    "Symbol": {"String"},
    "String": {"String"},
    "Bool": {"Bool"},
    "Timestamp": {"Timestamp", "Int64"},
    "Vector/None": {"Vector", "VectorInt8"},
}
_LENDIM = {"Vector/Some": {"Vector", "VectorInt8"}}
_ALL = ("Any", "Named")


def _pm(p, case, binds):
    """does pattern p match the abstract case? case: ('T', variant, dim) | ('V', variant) | ('D', 'Some'|'None') | ('tuple', [cases])"""
    k = p.get("p")
    if k == "wild":
        return True
    if k == "ident":
        if p.get("sub"):
            return _pm(p["sub"], case, binds)
        if case[0] == "D" and p["name"] == "None":
            return case[1] == "None"
        binds[p["name"]] = case
        return True
    if k == "ref":
        return _pm(p["pat"], case, binds)
    if k == "or":
        return any(_pm(c, case, binds) for c in p["cases"])
    if k == "tuple":
        if case[0] != "tuple" or len(p["elems"]) != len(case[1]):
            raise CheckError("SchemaType::matches: tuple pattern of unexpected shape")
        return all(_pm(e, c, binds) for e, c in zip(p["elems"], case[1]))
    if k in ("path", "ts", "struct"):
        name = last_seg(p["path"])
        if case[0] == "D":
            if name not in ("Some", "None"):
                raise CheckError("SchemaType::matches: unexpected pattern on dim: %s" % p["path"])
            if name != case[1]:
                return False
            for e in p.get("elems", []):
                _pm(e, ("N",), binds)
            return True
        if case[0] not in ("T", "V") or name != case[1]:
            return False
        if k == "ts":
            for e in p["elems"]:
                if e.get("p") not in ("wild", "ident"):
                    raise CheckError("SchemaType::matches: payload pattern inspects the value: %r" % e)
                _pm(e, ("payload", case), binds)
            return True
        if k == "struct":
            for fname, fp in p["fields"]:
                if fname != "dim" or case[0] != "T":
                    raise CheckError("SchemaType::matches: unexpected struct field %s" % fname)
                if not _pm(fp, ("D", case[2]), binds):
                    return False
            return True
        return True
    raise CheckError("SchemaType::matches: unrecognised pattern kind %r" % k)


def _verdict(body, binds):
    if body.get("e") == "block" and len(body.get("stmts", [])) == 1:
        body = body["stmts"][0]
    if body.get("e") == "lit" and body.get("t") == "bool":
        return "accept" if body["v"] == "true" else "reject"
    if body.get("e") == "bin" and body.get("op") == "==":
        def side(x):
            while x.get("e") in ("un", "paren", "ref") and "x" in x:
                x = x["x"]
            if x.get("e") == "mcall" and x.get("m") == "len" and x["recv"].get("e") == "path":
                b = binds.get(x["recv"]["p"])
                if b and b[0] == "payload":
                    return "len"
            if x.get("e") == "path":
                b = binds.get(x["p"])
                if b and b[0] == "N":
                    return "dim"
            return None
        if {side(body["l"]), side(body["r"])} == {"len", "dim"}:
            return "len==dim"
    return "other"


def table(F, ctx):
    ctx.rule("R-C33-c", "type-compatibility table: first-match evaluation of SchemaType::matches over every (declared type, value kind) pair equals the reference table", floor=90)
    f = F.syn_fn("matches", file="src/schema/mod.rs", impl_self="SchemaType")
    ms = [n for n in syn_walk(f["body"]) if n.get("e") == "match"]
    if len(ms) != 1 or ms[0]["on"].get("e") != "tuple" or [x.get("p") for x in ms[0]["on"]["xs"]] != ["self", "value"]:
        raise CheckError("SchemaType::matches is no longer one match over (self, value): the table rule cannot read it")
    arms = ms[0]["arms"]
    tvars = F.variants("schema::SchemaType")
    vvars = F.variants("value::Value")
    if not tvars or not vvars:
        raise CheckError("variants of SchemaType / Value not found")
    tcases = []
    for t in tvars:
        if t == "Vector":
            tcases += [("T", t, "Some"), ("T", t, "None")]
        else:
            tcases.append(("T", t, None))
    where = "src/schema/mod.rs:%d" % ms[0].get("ln", 0)
    for tc in tcases:
        tkey = tc[1] if tc[2] is None else "%s/%s" % (tc[1], tc[2])
        if tkey not in _ACCEPT and tkey not in _LENDIM and tkey not in _ALL:
            raise CheckError("SchemaType variant %s has no row in the reference table (confirm its conformance rule by reading and add it)" % tkey)
        for v in vvars:
            got = None
            for a in arms:
                binds = {}
                if _pm(a["pat"], ("tuple", [tc, ("V", v)]), binds):
                    if a.get("guard") is not None:
                        raise CheckError("SchemaType::matches: guarded arm at line %s: not evaluated by the table rule" % a.get("ln"))
                    got = _verdict(a["body"], binds)
                    break
            if got is None:
                raise CheckError("no arm matches (%s, %s)" % (tkey, v))
            if tkey in _ALL:
                exp = "accept"
            elif v in _LENDIM.get(tkey, ()):
                exp = "len==dim"
            elif v in _ACCEPT.get(tkey, ()):
                exp = "accept"
            else:
                exp = "reject"
            ok = got == exp
            ctx.site("(%s, %s) -> %s" % (tkey, v, got), where, ok=ok)
            if not ok:
                ctx.violation("schema::SchemaType::matches:R-C33-c:%s:%s" % (tkey, v),
                              "a column declared %s %s a %s value (reference: %s): %s" % (
                                  tkey, {"accept": "accepts", "reject": "rejects", "len==dim": "compares length and dimension of", "other": "decides by another test on"}[got], v, exp,
                                  "a non-conforming tuple can be stored" if exp != "accept" and got != "reject" else "a conforming insert is refused"), where)
    ctx.end_rule()
