"""C33 - declared schemas are enforced."""
import re
from ..core import CheckError, op_local, proj
from . import common, dur

SE = "storage_engine::StorageEngine"
KG = "storage_engine::KnowledgeGraph"
VE = "schema::validator::ValidationEngine"


err_propagated = common.err_propagated


def run(F, ctx):
    ctx.explanation = (
        "Decides: (a) schema validation of exactly the (relation, tuples) being inserted dominates every persist call of the storage engine's insert entry point, "
        "and its failure edge cannot reach a persist call (so every caller - Insert, Update, any future one - is covered, and nothing is applied before the whole "
        "batch validated); (b) the validator chain rejects the batch iff some tuple produced a violation: the batch's Ok is built only on the empty-violations side, "
        "every tuple's violations are collected, a tuple's Ok is built only on its empty-violations side, and both the arity comparison and the per-column type test feed "
        "the violation list. Not decided: the type-compatibility table itself (which Value matches which SchemaType)."
    )
    # ---- a
    ctx.rule("R-C33-a", "validation dominates persist in insert_tuples_into; failing edge cannot reach persist", floor=2)
    f = F.fn(SE + "::insert_tuples_into")
    vs = [c for c in f.normal_calls() if c.resolved in (KG + "::validate_tuples", SE + "::validate_tuples_in")]
    pcs = [c for c in f.normal_calls() if (c.static or "").startswith("storage::persist::PersistBackend::")]
    if not pcs:
        raise CheckError("insert_tuples_into: no persist call")
    rel_l, tup_l = f.need_local("relation"), f.need_local("tuples")
    if rel_l is None or tup_l is None:
        raise CheckError("insert_tuples_into: parameters relation/tuples not found")
    good = None
    for v in vs:
        args_ok = any(op_local(a) in f.derive({rel_l}, through_calls=False) for a in v.args) and any(op_local(a) in f.derive({tup_l}, through_calls=True, stop_calls=[KG + "::validate_tuples"]) for a in v.args)
        dom = all(f.dominates(v.bb, p.bb) for p in pcs)
        prop, cont = err_propagated(f, v)
        if args_ok and dom and prop:
            good = v
    ctx.site("validate_tuples(relation, tuples) ≺ persist, error edge returns", f.where(), ok=good is not None, validate_calls=len(vs), persist_calls=len(pcs))
    if good is None:
        ctx.violation(SE + "::insert_tuples_into:R-C33-a:unvalidated-insert", "insert_tuples_into can reach persist.append without a dominating, error-propagating schema validation of the inserted (relation, tuples): a typed relation can store non-conforming tuples (e.g. through the handler's Update arm)", f.where())
    # every insertion entry of the storage engine funnels into insert_tuples_into (no second writer of user tuples)
    others = []
    for c in F.call_sites_of("storage::persist::PersistBackend::append"):
        n = c.fn.name
        if n.startswith(SE + "::") and n.split("::{closure")[0] not in (SE + "::insert_tuples_into", SE + "::delete_tuples_from"):
            others.append(c)
    for c in F.call_sites_of(KG + "::insert_in_memory"):
        n = c.fn.name.split("::{closure")[0]
        ok = n in (SE + "::insert_tuples_into",)
        ctx.site("insert_in_memory called from %s" % n, c.where(), ok=ok)
        if not ok:
            ctx.violation("%s:R-C33-a:second-insert-path" % n, "%s applies an insert in memory without going through insert_tuples_into (and its schema validation)" % n, c.where())
    ctx.end_rule()

    # ---- b
    ctx.rule("R-C33-b", "validator chain: batch/tuple Ok only on the empty-violations side; arity and type tests feed the violation list", floor=4)
    kv = F.fn(KG + "::validate_tuples")
    vb = [c for c in kv.normal_calls() if c.resolved == VE + "::validate_batch"]
    sg = [c for c in kv.normal_calls() if (c.resolved or "").endswith("SchemaCatalog::get")]
    ok = bool(vb) and bool(sg)
    if ok:
        rel = kv.derive({2}, through_calls=False)
        tup = kv.derive({3}, through_calls=False)
        ok = all(op_local(c.args[1]) in rel for c in sg) and all(op_local(c.args[2]) in tup for c in vb)
        sch = set()
        for c in sg:
            sch |= kv.derive({c.dst["l"]}, through_calls=False)
        ok = ok and all(op_local(c.args[1]) in sch for c in vb)
        ok = ok and all(err_propagated(kv, c)[0] for c in vb)
    ctx.site("KnowledgeGraph::validate_tuples validates `tuples` against the schema of `relation` and propagates the error", kv.where(), ok=ok)
    if not ok:
        ctx.violation(KG + "::validate_tuples:R-C33-b:wiring", "KnowledgeGraph::validate_tuples no longer validates its `tuples` against the declared schema of its `relation` with the error propagated", kv.where())

    def ok_only_when_empty(fname, label):
        g = F.fn(fname)
        okb = []
        for i in sorted(g.live_blocks()):
            for st in g.stmts(i):
                rv = st["r"]
                if rv.get("k") == "agg" and rv.get("adt") == "std::result::Result" and rv.get("var") == "Ok":
                    okb.append(i)
        emp = [c for c in g.normal_calls() if re.search(r"Vec::<.*Violation>::is_empty$", c.static_args or "")]
        good = False
        for c in emp:
            br = common.branch_on_result(g, c)
            if br and okb and all(g.dominates(br[2], b) for b in okb):
                good = True
        ctx.site(label, g.where(), ok=good, ok_blocks=len(okb), emptiness_tests=len(emp))
        if not good:
            ctx.violation("%s:R-C33-b:ok-not-guarded" % fname, "%s can return Ok although violations were recorded (its Ok is not confined to the empty-violations side)" % fname.split("::")[-1], g.where())
        return g

    g = ok_only_when_empty(VE + "::validate_batch", "validate_batch: Ok only if no violation")
    vt = [c for c in g.normal_calls() if c.resolved == VE + "::validate_tuple"]
    app = [c for c in g.normal_calls() if re.search(r"Vec::<.*Violation>::(append|extend|push)", c.static_args or "") or re.search(r"Vec<.*Violation> as std::iter::Extend", c.static_args or "")]
    loops = dur.loop_blocks(g)
    ok = bool(vt) and bool(app) and all(c.bb in loops for c in vt) and all(c.bb in loops for c in app)
    if ok:
        # the tuple handed to validate_tuple comes from iterating the `tuples` parameter
        it = g.derive({3}, through_calls=True)
        ok = all(op_local(c.args[2]) in it for c in vt)
    if ok:
        # no iteration may skip the validation: from the element-bearing arm of the loop's next() every path back to next() passes validate_tuple
        nx = [c for c in g.normal_calls() if (c.static or "") == "std::iter::Iterator::next" and c.bb in loops]
        for n_ in nx:
            res = g.derive({n_.dst["l"]}, through_calls=False)
            for (sb, sadt, spl, smm, sother) in g.enum_switches("std::option::Option"):
                if spl["l"] in res and "Some" in smm:
                    leak = g.path(smm["Some"], [n_.bb], stop={c.bb for c in vt})
                    if leak is not None:
                        ok = False
    ctx.site("validate_batch: every tuple validated, its violations collected", g.where(), ok=ok)
    if not ok:
        ctx.violation(VE + "::validate_batch:R-C33-b:collect", "validate_batch does not validate every tuple of the batch and collect its violations", g.where())
    t = ok_only_when_empty(VE + "::validate_tuple", "validate_tuple: Ok only if no violation")
    ar = [c for c in t.normal_calls() if (c.resolved or "").endswith("Tuple::arity")]
    sar = [c for c in t.normal_calls() if (c.resolved or "").endswith("RelationSchema::arity")]
    mt = [c for c in t.normal_calls() if (c.resolved or "").endswith("::matches") and "schema" in (c.resolved or "")]
    push = [c for c in t.normal_calls() if re.search(r"Vec::<.*Violation>::push$", c.static_args or "")]
    ok = bool(ar) and bool(sar) and bool(mt) and len(push) >= 2
    if ok:
        # the type test's failing edge leads to a push
        okm = False
        for c in mt:
            br = common.branch_on_result(t, c)
            if br and any(p.bb in t.reachable_from([br[1]]) and not t.dominates(br[2], p.bb) for p in push):
                okm = True
        ok = okm
    ctx.site("validate_tuple: arity comparison and per-column type test feed the violation list", t.where(), ok=ok, type_tests=len(mt), pushes=len(push))
    if not ok:
        ctx.violation(VE + "::validate_tuple:R-C33-b:tests", "validate_tuple no longer records a violation for an arity mismatch and for a column whose value does not match the declared type", t.where())
    ctx.end_rule()
