"""C18 - materialization and incremental maintenance are invisible (the clauses that are armed; see DESIGN.md for the two that are not)."""
import re
from ..core import CheckError, op_local
from . import common, dur, c20

KG = "storage_engine::KnowledgeGraph"
DRM = "derived_relations::DerivedRelationsManager"
IE = "incremental::IncrementalEngine"


def run(F, ctx):
    ctx.explanation = (
        "Decides three necessary clauses: (c) every base-fact mutation that mirrors into the incremental engine also notifies the derived-relation and index "
        "invalidation before the snapshot is published; (d) publish_snapshot holds the derived-relations lock from reading the materializations until the new snapshot is "
        "stored, so no invalidation can fall between reading and publishing; (e) the only two accessors through which publish_snapshot obtains materialized data consult the "
        "`valid` flag, and materialized data reaches snapshots through no other accessor. NOT armed (reported in `observations`): the cascade map derived_to_derived is read but "
        "never written, and clear_rule / replace_rule / remove_rule_clause do not touch materializations - on the current tree no materialization is ever produced "
        "(auto_materialize_rule's `?rel(V0,..)` query is rejected by the engine; snapshots have an empty materialized set), so no failing history can be shown and an alarm would not be a demonstrable defect. "
        "Not decided: equality with fresh evaluation."
    )
    # ---- c
    ctx.rule("R-C18-c", "base-fact mutation sites that mirror into the incremental engine also invalidate derived relations and indexes, before publishing", floor=3)
    for nm, mirror in ((KG + "::insert_in_memory", IE + "::insert"), (KG + "::delete_in_memory", IE + "::delete"), (KG + "::clear_relations_by_prefix", IE + "::delete")):
        f = F.fn(nm)
        mir = [c for c in f.normal_calls() if c.resolved == mirror]
        n1 = [c for c in f.normal_calls() if c.resolved == IE + "::notify_base_update"]
        n2 = [c for c in f.normal_calls() if c.resolved == IE + "::notify_indexes_base_update"]
        pubs = [c for c in f.normal_calls() if c.resolved == c20.PUB]
        ok = bool(mir) and bool(n1) and bool(n2) and bool(pubs)
        if ok:
            # after a mirror write both notifications follow before any publication
            for m in mir:
                p1 = f.path(m.target, [p.bb for p in pubs], stop={c.bb for c in n1} | set(f.error_blocks())) if m.target is not None else None
                p2 = f.path(m.target, [p.bb for p in pubs], stop={c.bb for c in n2} | set(f.error_blocks())) if m.target is not None else None
                ok = ok and p1 is None and p2 is None
            # same relation
            rel = f.need_local("relation")
            if rel is not None:
                d = f.derive({rel}, through_calls=True)
                ok = ok and all(op_local(c.args[1]) in d for c in n1 + n2)
        ctx.site("%s: mirror -> notify_base_update + notify_indexes_base_update -> publish" % nm.split("::")[-1], f.where(), ok=ok)
        if not ok:
            ctx.violation("%s:R-C18-c:no-invalidation" % nm, "%s can publish a snapshot after mirroring a base change without invalidating the materializations / indexes that depend on that relation" % nm.split("::")[-1], f.where())
    ctx.end_rule()

    # ---- d
    ctx.rule("R-C18-d", "publish_snapshot holds the derived-relations lock across reading materializations and storing the snapshot", floor=1)
    p = F.fn(c20.PUB)
    reads = [c for c in p.normal_calls() if c.resolved in (DRM + "::get_all_valid_materializations", DRM + "::get_materialized_relation_names")]
    stores = [c for c in p.normal_calls() if c20._ARCSWAP_STORE.match(c.static_args or "")]
    if len(reads) < 2 or not stores:
        raise CheckError("publish_snapshot: materialization reads / snapshot store not found")
    ok = False
    for (c, fld, md) in common.lock_acquisitions(p):
        if "DerivedRelationsManager" not in (c.static_args or ""):
            continue
        reg, drops = common.guard_region(p, c)
        covered_reads = all(common.call_in_region(p, r, reg, drops) for r in reads)
        # the store on the incremental side is the one dominated by the lock acquisition
        dom_stores = [s for s in stores if p.dominates(c.bb, s.bb)]
        if covered_reads and dom_stores and all(common.call_in_region(p, s, reg, drops) for s in dom_stores):
            ok = True
    ctx.site("lock region covers reads and store", p.where(), ok=ok, reads=len(reads), stores=len(stores))
    if not ok:
        ctx.violation(c20.PUB + ":R-C18-d:lock-window", "publish_snapshot releases the derived-relations lock between reading the valid materializations and storing the snapshot: a concurrent invalidation in that window publishes stale derived tuples", p.where())
    ctx.end_rule()

    # ---- e
    ctx.rule("R-C18-e", "materialized data reaches snapshots only through accessors that consult the `valid` flag", floor=2)
    for acc in ("get_all_valid_materializations", "get_materialized_relation_names"):
        names = F.with_closures(DRM + "::" + acc)
        valid_read = False
        for n in names:
            g = F.fn(n)
            for (bb, kind, adt, fld, line, pl) in g.field_accesses():
                if adt.endswith("MaterializedRelation") and fld == "valid" and kind.startswith("r"):
                    valid_read = True
        ctx.site("%s reads MaterializedRelation.valid" % acc, F.fn(DRM + "::" + acc).where(), ok=valid_read)
        if not valid_read:
            ctx.violation("%s::%s:R-C18-e:validity-ignored" % (DRM, acc), "%s returns materialized data without consulting the `valid` flag: invalidated materializations are served" % acc, F.fn(DRM + "::" + acc).where())
    other = [c for c in p.normal_calls() if (c.resolved or "").startswith(DRM + "::") and c.resolved not in (DRM + "::get_all_valid_materializations", DRM + "::get_materialized_relation_names")]
    ctx.site("publish_snapshot uses no other accessor of the manager", p.where(), ok=not other)
    for c in other:
        ctx.violation(c20.PUB + ":R-C18-e:other-accessor:%s" % c.resolved.split("::")[-1], "publish_snapshot obtains derived data through %s, which is not one of the validity-checking accessors" % c.resolved.split("::")[-1], c.where())
    ctx.end_rule()

    # ---- observations (not armed)
    obs = []
    dtd_w = dtd_r = 0
    for n in F.bodies:
        if not n.startswith(DRM + "::"):
            continue
        if "derived_to_derived" not in F.raw_line(n):
            continue
        g = F.fn(n)
        for c in common.calls_on_field(g, "derived_to_derived"):
            if re.search(r"::(insert|entry|extend|get_mut)(::<.*>)?$", c.static_args or ""):
                dtd_w += 1
            else:
                dtd_r += 1
    obs.append({"observation": "DerivedRelationsManager.derived_to_derived: %d reading/removing calls, %d populating calls" % (dtd_r, dtd_w), "armed": False})
    for m in ("clear_rule", "replace_rule", "remove_rule_clause"):
        g = F.fn(KG + "::" + m)
        touches = any((c.resolved or "").startswith(IE + "::") for c in g.normal_calls())
        obs.append({"observation": "KnowledgeGraph::%s updates materialization: %s" % (m, touches), "armed": False})
    sm = [c.fn.name for c in F.call_sites_of(DRM + "::set_materialized", IE + "::set_materialized")]
    obs.append({"observation": "producers of materializations: %s" % sorted(set(sm)), "armed": False})
    ctx.extra["observations"] = obs
