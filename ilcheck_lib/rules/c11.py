"""C11 - restart reproduces the live state (writer/reader agreement of the logged delta)."""
import re
from ..core import CheckError, op_local
from . import common, dur, c32

SE = "storage_engine::StorageEngine"
KG = "storage_engine::KnowledgeGraph"
LOAD = SE + "::load_knowledge_graph_from_persist"


def is_set_replay(F, name):
    """the function folds updates in logical-time order with set semantics: a (stable) sort keyed on `time`,
    HashSet insert on the diff>0 branch and HashSet remove on the diff<0 branch"""
    if name not in F.bodies:
        return False
    fns = F.with_closures(name)
    sort = ins = rem = False
    time_key = False
    for n in fns:
        g = F.fn(n)
        for c in g.normal_calls():
            sa = c.static_args or ""
            if re.search(r"::sort_by_key::<|::sort_by_cached_key::<|::sort_by::<", sa) and "unstable" not in sa:
                sort = True
            if re.search(r"HashSet::<&?value::Tuple>::insert$", sa):
                ins = c
            if re.search(r"HashSet::<&?value::Tuple>::remove", sa):
                rem = c
        for (bb, kind, adt, fld, line, pl) in g.field_accesses():
            if adt.endswith("batch::Update") and fld == "time" and n != name:
                time_key = True
    if not (sort and ins and rem and time_key):
        return False
    g = F.fn(name)
    # sign tests on Update.diff guard the insert / remove
    signs = []
    for i in sorted(g.live_blocks()):
        for st in g.stmts(i):
            rv = st["r"]
            if rv.get("k") == "bin" and rv["op"] in ("Gt", "Lt") and rv.get("aty") == "i64":
                signs.append((rv["op"], i))
    return len({op for op, _ in signs}) == 2 and ins.fn.name == name and rem.fn.name == name


def set_replay_calls(F, f):
    return [c for c in f.normal_calls() if c.resolved in F.bodies and is_set_replay(F, c.resolved)]


def run(F, ctx):
    ctx.explanation = (
        "Two semantic tags are computed from the shape of the code and must agree. Writer tag, at every function that appends base-fact updates to the persist layer: "
        "`effective` if the appended updates are data-dependent on the live relation contents (or on what the in-memory apply reports as actually changed), `requested` if "
        "they derive only from the request's tuples. Reader tag, at recovery: `sum-diffs` if relation contents are rebuilt by consolidating (summing) diffs and keeping "
        "positive multiplicities, `set-replay` if updates are folded in time order with set semantics. Only (effective, sum-diffs) and (requested, set-replay) reproduce the "
        "live state for histories with duplicate inserts / deletes of absent tuples. Not decided: arithmetic of consolidation, logical-time assignment."
    )
    ctx.rule("R-C11-a", "logged delta (writer) and recovery semantics (reader) agree", floor=3)
    ld = F.fn(LOAD)
    cons = [c for c in ld.normal_calls() if re.search(r"::consolidate(_to_current)?$", c.resolved or "")]
    tt = [c for c in ld.normal_calls() if (c.resolved or "").endswith("::to_tuples")]
    replay = set_replay_calls(F, ld)
    if cons and tt and not replay:
        reader = "sum-diffs"
    elif replay and not cons:
        reader = "set-replay"
    else:
        reader = "unknown"
    ctx.site("reader tag of recovery: %s" % reader, ld.where(), ok=reader != "unknown", consolidate_calls=len(cons), to_tuples_calls=len(tt), set_replay_calls=len(replay))
    if reader == "unknown":
        ctx.violation(LOAD + ":R-C11-a:reader-semantics-unclear", "recovery neither sums consolidated diffs nor replays the log with set semantics in time order (or mixes both)", ld.where())
    writers = []
    for c in F.call_sites_of("storage::persist::PersistBackend::append"):
        n = c.fn.name.split("::{closure")[0]
        if n.startswith(SE + "::") or n.startswith(KG + "::"):
            writers.append(c)
    if len(writers) < 3:
        raise CheckError("only %d persist.append call sites found in the storage engine" % len(writers))
    for c in writers:
        f = c.fn
        n = f.name
        lv = c32.live_vectors(f)
        eff_src = set(lv)
        for x in f.normal_calls():
            if re.search(r"KnowledgeGraph::(insert|delete)_in_memory$", x.resolved or "") and f.dominates(x.bb, c.bb):
                eff_src |= f.derive({x.dst["l"]}, through_calls=True)
        upd = op_local(c.args[2]) if len(c.args) > 2 else None
        # what the appended updates derive from (backwards): use forward derive from candidate sources
        effective = upd is not None and upd in f.derive(eff_src, through_calls=True) if eff_src else False
        tag = "effective" if effective else "requested"
        ok = (tag, reader) in (("effective", "sum-diffs"), ("effective", "set-replay"), ("requested", "set-replay"))
        ctx.site("%s logs the %s delta; recovery is %s" % (n.split("::")[-1], tag, reader), c.where(), ok=ok)
        if not ok:
            ctx.violation("%s:R-C11-a:%s+%s" % (n, tag, reader),
                          "%s appends the %s delta to the log while recovery %s: a history with a repeated insert or a delete of an absent tuple is recovered differently from the state that was served" % (n.split("::")[-1], tag, "sums diffs and keeps positive multiplicities" if reader == "sum-diffs" else "replays updates with set semantics"), c.where())
    ctx.end_rule()

    # ---- b: what rewrites the log must keep what the reader needs
    ctx.rule("R-C11-b", "log-rewriting steps (compaction) preserve the per-time history that a set-replay recovery needs", floor=1)
    PB = "<storage::persist::FilePersist as storage::persist::PersistBackend>::"
    comp = F.fn(PB + "compact")
    merges = []
    for c in comp.normal_calls():
        r = c.resolved
        if r in F.bodies and r.startswith("storage::persist::consolidate::"):
            g = F.fn(r)
            flds = {fld for (bb, kind, adt, fld, line, pl) in g.field_accesses() if adt.endswith("batch::Update")}
            for ch in F.children(r):
                flds |= {fld for (bb, kind, adt, fld, line, pl) in F.fn(ch).field_accesses() if adt.endswith("batch::Update")}
            writes_diff = any(adt.endswith("batch::Update") and fld == "diff" and kind in ("w", "wb", "wp") for (bb, kind, adt, fld, line, pl) in g.field_accesses())
            if writes_diff:
                merges.append((c, r, "time" in flds))
    if not merges:
        raise CheckError("compact: no consolidation step found")
    for (c, r, keeps_time) in merges:
        ok = keeps_time or reader != "set-replay"
        ctx.site("compact merges updates with %s (keyed on time: %s)" % (r.split("::")[-1], keeps_time), c.where(), ok=ok)
        if not ok:
            ctx.violation("%s:R-C11-b:history-collapsed:%s" % (PB + "compact", r.split("::")[-1]), "compaction merges a tuple's updates regardless of their logical time (%s) while recovery replays the log in time order with set semantics: after insert t; insert t; delete t; compact; restart the tuple reappears" % r.split("::")[-1], c.where())
    ctx.end_rule()

    # ---- c: recovery replays in time order, so time order must be apply order
    ctx.rule("R-C11-c", "the logical time of a write is drawn inside the critical section in which the write is applied to the served state", floor=2)
    for (entry, mut) in ((SE + "::insert_tuples_into", KG + "::insert_in_memory"), (SE + "::delete_tuples_from", KG + "::delete_in_memory")):
        f = F.fn(entry)
        draws = [c for c in common.calls_on_field(f, "logical_time") if re.search(r"::fetch_add$", c.static_args or c.static or "")]
        if not draws:
            draws = [c for c in f.normal_calls() if re.search(r"atomic::Atomic.*::fetch_add$", c.static_args or "")]
        muts = [c for c in f.normal_calls() if c.resolved == mut]
        if not draws or not muts:
            raise CheckError("%s: time draw / mutator call not found" % entry)
        regs = []
        for (c, fld, md) in common.lock_acquisitions(f):
            if md == "write" and "KnowledgeGraph" in (c.static_args or ""):
                reg, drops = common.guard_region(f, c)
                if any(common.call_in_region(f, m_, reg, drops) for m_ in muts):
                    regs.append((reg, drops))
        ok = bool(regs) and all(any(common.call_in_region(f, d_, reg, drops) for (reg, drops) in regs) for d_ in draws)
        ctx.site("%s: fetch_add on the logical clock inside the write-lock region of %s" % (entry.split("::")[-1], mut.split("::")[-1]), draws[0].where(), ok=ok)
        if not ok:
            ctx.violation("%s:R-C11-c:time-drawn-outside-apply-section" % entry, "%s draws the write's logical time before it takes the graph's write lock: two concurrent writers of one tuple can be applied in the opposite order of their times, while recovery replays the log in time order - the recovered relation differs from the one that was served" % entry.split("::")[-1], draws[0].where())
    ctx.end_rule()
