"""C25 - vector index state follows its history and persists (pairing / coverage clauses)."""
import re
from ..core import CheckError, syn_walk, op_local, place_fields, op_place, last_seg
from . import common

IMPL = "<hnsw_index::HnswIndex as index_manager::Index>::"
HIDX = "hnsw_index::HnswIndex"
PERS = "hnsw_index::PersistedHnswIndex"
LOAD = "hnsw_index::HnswIndex::load"
SAVE = "hnsw_index::HnswIndex::save"
REBUILD_HNSW = "hnsw_index::HnswIndex::rebuild_hnsw"
_WRITE = re.compile(r"RwLock::<.*>::write$")


def tomb_ops(f, op):
    """HashSet::<usize>::<op> calls in f whose receiver comes from a write lock on self.tombstones"""
    lock = common.calls_on_field(f, "tombstones", callee_pat=_WRITE)
    if not lock:
        return [], lock
    d = set()
    for l in lock:
        d |= f.derive({l.dst["l"]}, through_calls=True)
    out = []
    for c in f.normal_calls():
        if re.match(r"^std::collections::HashSet::<usize>::%s\b" % op, c.static_args or "") and op_local(c.args[0]) in d:
            out.append(c)
    return out, lock


def run(F, ctx):
    ctx.explanation = (
        "Decides: (a) tombstone pairing - delete records a tombstone, every (re)insert path removes the id's tombstone before the graph is "
        "rebuilt, rebuild clears the set; (b) every DistanceMetric variant has a literal arm in both loaders and the writer derives the literal "
        "from the variant name; (d) every field of the persisted struct is read back by load, load rebuilds the graph, and the persisted struct "
        "covers every piece of live state (config fields, dimension, vectors, tombstones). Not decided: vector contents, graph quality."
    )
    # ---- a
    ctx.rule("R-C25-a", "tombstone pairing: delete inserts, insert/insert_batch remove before rebuild_hnsw, rebuild clears", floor=4)
    d = F.fn(IMPL + "delete")
    ins, _ = tomb_ops(d, "insert")
    ctx.site("delete records tombstone", d.where(), ok=bool(ins))
    if not ins:
        ctx.violation(IMPL + "delete:R-C25-a:no-tombstone", "delete no longer records a tombstone for the id", d.where())
    for m in ("insert", "insert_batch"):
        f = F.fn(IMPL + m)
        rm, _ = tomb_ops(f, "remove")
        rb = f.calls_to(REBUILD_HNSW)
        if not rb:
            raise CheckError("%s no longer calls rebuild_hnsw" % m)
        # on every success path to the rebuild the tombstone has been removed: remove dominates rebuild,
        # or (batch) the removal sits in the loop body whose exit leads to the rebuild
        ok = False
        for r in rm:
            for b in rb:
                if f.dominates(r.bb, b.bb):
                    ok = True
        if not ok and rm:
            # loop form: the remove is on every path from the loop's per-element successor to the back edge
            # accept when the vectors write (push / index assignment) of the same iteration is dominated by the remove
            vw = common.calls_on_field(f, "vectors", callee_pat=_WRITE)
            ok = bool(vw) and all(any(f.dominates(r.bb, w.bb) for r in rm) for w in vw)
        ctx.site("%s clears the id's tombstone before rebuild" % m, f.where(), ok=ok, removes=len(rm))
        if not ok:
            ctx.violation("%s%s:R-C25-a:tombstone-not-cleared" % (IMPL, m), "%s stores the vector but does not remove the id's tombstone before rebuilding: a re-inserted id stays dead and the rebuild drops its new vector" % m, f.where())
    r = F.fn(IMPL + "rebuild")
    cl, _ = tomb_ops(r, "clear")
    ctx.site("rebuild clears tombstones", r.where(), ok=bool(cl))
    if not cl:
        ctx.violation(IMPL + "rebuild:R-C25-a:tombstones-not-cleared", "rebuild does not clear the tombstone set: ids deleted before the rebuild stay dead after being rebuilt in", r.where())
    # compaction sibling agreement: whoever clears the tombstone set must leave the index in the state rebuild() leaves it in
    reset_fields = set()
    for (c, fld, md) in common.lock_acquisitions(r):
        if md == "write":
            reset_fields.add(fld)
    for n in sorted(F.bodies):
        if "hnsw_index::HnswIndex" not in n or "{closure" in n or n == IMPL + "rebuild":
            continue
        f = F.fn(n)
        cl2, _ = tomb_ops(f, "clear")
        if not cl2:
            continue
        mine = {fld for (c, fld, md) in common.lock_acquisitions(f) if md == "write"}
        calls_rebuild = any(c.resolved == IMPL + "rebuild" for c in f.normal_calls())
        missing = sorted(reset_fields - mine - ({"inner"} if any(c.resolved == REBUILD_HNSW for c in f.normal_calls()) else set()))
        ok = calls_rebuild or not missing
        ctx.site("%s clears tombstones and resets the same state as rebuild" % n.split("::")[-1], f.where(), ok=ok, missing=missing)
        if not ok:
            ctx.violation("%s:R-C25-a:partial-compaction:%s" % (n, ",".join(missing)), "%s compacts the index in place (clears the tombstone set) but does not reset %s the way rebuild() does: the index state no longer follows its history (e.g. a stale dimension after the last vector is deleted)" % (n.split("::")[-1], missing), f.where())
    ctx.end_rule()

    # ---- b: metric literal tables
    ctx.rule("R-C25-b", "every DistanceMetric variant has a literal arm in HnswIndex::load and IndexManager loaders; no silent default", floor=4)
    metrics = F.variants("index_manager::DistanceMetric") if "index_manager::DistanceMetric" in F.adts else None
    if metrics is None:
        cands = [a for a in F.adts if a.endswith("::DistanceMetric")]
        if len(cands) != 1:
            raise CheckError("DistanceMetric enum not found uniquely: %s" % cands)
        metrics = F.variants(cands[0])
    load_syn = F.syn_fn("load", file="src/hnsw_index.rs", impl_self="HnswIndex")
    tables = []
    for n in syn_walk(load_syn["body"]):
        if n.get("e") == "match":
            lits = {}
            default_ok = None
            for arm in n["arms"]:
                p = arm["pat"]
                cases = p["cases"] if p.get("p") == "or" else [p]
                built = [last_seg(x["p"]) for x in syn_walk(arm["body"]) if x.get("e") == "path" and "DistanceMetric::" in x["p"]]
                for cpat in cases:
                    if cpat.get("p") == "lit":
                        for b in built[:1]:
                            lits.setdefault(b, []).append(cpat["v"].strip('"'))
                    elif cpat.get("p") in ("wild", "ident"):
                        default_ok = any(x.get("e") == "ret" for x in syn_walk(arm["body"])) and any(x.get("e") == "call" and last_seg(x["f"].get("p", "")) == "Err" for x in syn_walk(arm["body"]))
            if lits:
                tables.append((n["ln"], lits, default_ok))
    if not tables:
        raise CheckError("HnswIndex::load: metric literal table not found")
    for (ln, lits, default_ok) in tables:
        for v in metrics:
            want = v.lower()
            ok = v in lits and want in [x.lower() for x in lits[v]]
            ctx.site("load: metric %s <- %s" % (v, lits.get(v)), "src/hnsw_index.rs:%s" % ln, ok=ok)
            if not ok:
                ctx.violation("%s:R-C25-b:metric:%s" % (LOAD, v), "HnswIndex::load has no arm for the literal `%s` that save writes for DistanceMetric::%s: an index saved with this metric cannot be loaded (or loads with another metric)" % (want, v), "src/hnsw_index.rs:%s" % ln)
        if default_ok is not True:
            ctx.violation("%s:R-C25-b:silent-default" % LOAD, "the metric table of HnswIndex::load has a default arm that does not return an error", "src/hnsw_index.rs:%s" % ln)
    # writer: lower-cased Debug name
    sv = F.fn(SAVE)
    dbg = [c for c in sv.normal_calls() if re.search(r"new_debug::<&?.*DistanceMetric>", c.static_args or "")]
    low = [c for c in sv.normal_calls() if re.search(r"str>::to_lowercase$|::to_lowercase$", c.static_args or "")]
    ok = bool(dbg) and bool(low)
    ctx.site("save writes lower-cased variant name", sv.where(), ok=ok)
    if not ok:
        ctx.violation("%s:R-C25-b:writer-literal" % SAVE, "save no longer derives the metric literal from the variant's (lower-cased) Debug name; the loaders' literal tables are keyed on it", sv.where())
    ctx.end_rule()

    # ---- d: persisted field coverage
    ctx.rule("R-C25-d", "every persisted field is read back by load; load rebuilds the graph; persisted struct covers the live state", floor=7)
    pf = [fd["name"] for fd in F.adt(PERS)["variants"][0]["fields"]]
    ld = F.fn(LOAD)
    read = set()
    for n in F.with_closures(LOAD):
        g = F.fn(n)
        for (bb, kind, adt, field, line, place) in g.field_accesses():
            if adt == PERS and kind.startswith("r"):
                read.add(field)
    for fd in pf:
        ok = fd in read
        ctx.site("load reads persisted.%s" % fd, ld.where(), ok=ok)
        if not ok:
            ctx.violation("%s:R-C25-d:field-not-restored:%s" % (LOAD, fd), "load never reads the persisted field `%s`: that part of the index state is lost across a save/load cycle" % fd, ld.where())
    rb = ld.calls_to(REBUILD_HNSW)
    succ_rets, eb = ld.success_returns()
    ok = bool(rb) and all(ld.path(0, [r], stop=set(eb) | {c.bb for c in rb}) is None for r in succ_rets)
    ctx.site("load rebuilds the graph on every success path", ld.where(), ok=ok)
    if not ok:
        ctx.violation("%s:R-C25-d:no-rebuild" % LOAD, "a success path of load does not rebuild the graph from the persisted vectors: searches on the loaded index return nothing", ld.where())
    live = {"vectors", "tombstones", "dimension"} | {fd["name"] for fd in F.adt("index_manager::HnswConfig")["variants"][0]["fields"]}
    missing = sorted(x for x in live if x not in pf)
    ctx.site("persisted struct covers live state", "src/hnsw_index.rs", ok=not missing, live=sorted(live), persisted=pf)
    for x in missing:
        ctx.violation("%s:R-C25-d:state-not-persisted:%s" % (PERS, x), "live index state `%s` has no field in the persisted representation" % x, "src/hnsw_index.rs")
    # save initialises every field from the matching live state: tombstones from self.tombstones, vectors from self.vectors
    for fld in ("tombstones", "vectors", "dimension"):
        locks = common.calls_on_field(sv, fld, callee_pat=re.compile(r"RwLock::<.*>::read$"))
        ctx.site("save reads self.%s" % fld, sv.where(), ok=bool(locks))
        if not locks:
            ctx.violation("%s:R-C25-d:save-skips:%s" % (SAVE, fld), "save no longer reads self.%s: the persisted %s does not reflect the live state" % (fld, fld), sv.where())
    ctx.end_rule()
