"""C29 - the internal knowledge graph is unreachable for non-admins."""
from . import authrules as A


def run(F, ctx):
    ctx.explanation = (
        "Decides: (AUTH-7) the per-statement authorization compares (i) the graph named by an explicit .kg use/.kg create/.kg drop, (ii) the current graph and (iii) the "
        "statement's target graph with the INTERNAL_KG constant and each equal outcome reaches only error returns (i applies to every caller, ii/iii to every non-admin); "
        "(AUTH-3/AUTH-1/AUTH-2) that check dominates every executor for every statement of the program, with no parse-failure bypass and identical segmentation; "
        "(AUTH-4) the current graph is tracked across .kg use/.kg create lines, so a switch inside the program is seen by the guard of the following statements; "
        "(AUTH-5) no other caller of the executors. Not decided: the legacy per-session WebSocket endpoint (listed)."
    )
    A.rule_must_pass(F, ctx, "C29")
    A.rule_internal_guard(F, ctx)
    A.rule_no_bypass(F, ctx)
    A.rule_same_unit(F, ctx)
    A.rule_kg_tracking(F, ctx)
    A.rule_who_may_call(F, ctx)
