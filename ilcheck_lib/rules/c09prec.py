"""C09 clause d: the arithmetic printer parenthesises every operand that the parser could not have produced
unparenthesised in that position (decision table over ArithOp x ArithOp x {left,right})."""
import re
from ..core import CheckError, syn_walk, last_seg


class Unsupported(Exception):
    pass


class Ev:
    """evaluator of side-effect-free expressions over a finite domain: ArithOp variants (strings), ints, bools"""

    def __init__(self, F, enum_short, enum_file, variants):
        self.F, self.enum, self.file, self.variants = F, enum_short, enum_file, set(variants)
        self.depth = 0

    def variant_of(self, path):
        sp = path.split("::")
        if len(sp) >= 2 and sp[-2] in (self.enum, "Self") and sp[-1] in self.variants:
            return sp[-1]
        return None

    def pat_match(self, p, v, env):
        k = p.get("p")
        if k == "wild":
            return True
        if k == "ident":
            if p.get("sub"):
                if not self.pat_match(p["sub"], v, env):
                    return False
            env[p["name"]] = v
            return True
        if k == "ref":
            return self.pat_match(p["pat"], v, env)
        if k == "or":
            return any(self.pat_match(c, v, env) for c in p["cases"])
        if k == "path":
            vv = self.variant_of(p["path"])
            if vv is None:
                raise Unsupported("pattern path %s" % p["path"])
            return vv == v
        if k == "lit":
            return str(v).lower() == str(p.get("v")).lower()
        raise Unsupported("pattern kind %s" % k)

    def pat_from_expr(self, e):
        """matches!(x, A | B) second argument arrives parsed as an expression"""
        k = e.get("e")
        if k == "path":
            if e["p"] == "_":
                return {"p": "wild"}
            return {"p": "path", "path": e["p"]}
        if k == "bin" and e["op"] == "|":
            return {"p": "or", "cases": [self.pat_from_expr(e["l"]), self.pat_from_expr(e["r"])]}
        if k == "paren":
            return self.pat_from_expr(e["x"])
        raise Unsupported("matches! pattern %s" % k)

    def ev(self, e, env):
        k = e.get("e")
        if k == "lit":
            if e.get("t") == "int":
                return int(re.sub(r"[a-z_].*$", "", e["v"]))
            if e.get("t") == "bool":
                return e["v"] in ("true", True)
            raise Unsupported("literal %s" % e.get("t"))
        if k == "path":
            p = e["p"]
            if p in env:
                return env[p]
            vv = self.variant_of(p)
            if vv is not None:
                return vv
            raise Unsupported("free name %s" % p)
        if k in ("paren", "ref", "group"):
            return self.ev(e["x"], env)
        if k == "un":
            x = self.ev(e["x"], env)
            if e["op"] == "*":
                return x
            if e["op"] == "!":
                return not x
            if e["op"] == "-":
                return -x
            raise Unsupported("unary %s" % e["op"])
        if k == "cast":
            return self.ev(e["x"], env)
        if k == "bin":
            op = e["op"]
            if op == "&&":
                return bool(self.ev(e["l"], env)) and bool(self.ev(e["r"], env))
            if op == "||":
                return bool(self.ev(e["l"], env)) or bool(self.ev(e["r"], env))
            a, b = self.ev(e["l"], env), self.ev(e["r"], env)
            if op in ("==", "!="):
                return (a == b) == (op == "==")
            if isinstance(a, str) or isinstance(b, str):
                raise Unsupported("ordering on enum values")
            return {"<": a < b, "<=": a <= b, ">": a > b, ">=": a >= b, "+": a + b, "-": a - b, "*": a * b}.get(op) if op in ("<", "<=", ">", ">=", "+", "-", "*") else self._unsup("operator %s" % op)
        if k == "mcall":
            recv = self.ev(e["recv"], env)
            if e["m"] in ("as_ref", "clone", "borrow", "to_owned", "into", "deref"):
                return recv
            if isinstance(recv, str) and recv in self.variants:
                return self.call_method(e["m"], recv, [self.ev(a, env) for a in e["args"]])
            raise Unsupported("method %s on %r" % (e["m"], recv))
        if k == "call":
            f = e["f"]
            if f.get("e") == "path":
                sp = f["p"].split("::")
                if len(sp) == 2 and sp[0] in (self.enum, "Self") and e["args"]:
                    args = [self.ev(a, env) for a in e["args"]]
                    return self.call_method(sp[1], args[0], args[1:])
            raise Unsupported("call")
        if k == "block":
            env2 = dict(env)
            val = None
            for st in e["stmts"]:
                if st.get("e") == "let":
                    if st["pat"].get("p") != "ident" or st.get("init") is None:
                        raise Unsupported("let pattern")
                    env2[st["pat"]["name"]] = self.ev(st["init"], env2)
                else:
                    val = self.ev(st, env2)
            return val
        if k == "if":
            c = e["cond"]
            if c.get("e") == "letc":
                raise Unsupported("if let")
            if self.ev(c, env):
                return self.ev(e["then"], env)
            if e.get("else") is None:
                raise Unsupported("if without else as value")
            return self.ev(e["else"], env)
        if k == "match":
            v = self.ev(e["on"], env)
            for arm in e["arms"]:
                env2 = dict(env)
                if self.pat_match(arm["pat"], v, env2) and (arm.get("guard") is None or self.ev(arm["guard"], env2)):
                    return self.ev(arm["body"], env2)
            raise Unsupported("non-exhaustive match")
        if k == "macro" and e.get("name") == "matches":
            args = e.get("args") or []
            if len(args) != 2:
                raise Unsupported("matches! with guard / unparsed arguments")
            v = self.ev(args[0], env)
            return self.pat_match(self.pat_from_expr(args[1]), v, {})
        if k == "ret":
            return self.ev(e["x"], env)
        raise Unsupported("expression kind %s" % k)

    def _unsup(self, what):
        raise Unsupported(what)

    def call_method(self, m, selfv, args):
        self.depth += 1
        if self.depth > 20:
            raise Unsupported("recursion")
        try:
            fn = self.F.syn_fn(m, file=self.file, impl_self=self.enum)
            env = {"self": selfv}
            names = [re.sub(r"^\s*(mut\s+)?(\w+)\s*:.*$", r"\2", p) for p in fn["params"][1:]]
            for n_, a in zip(names, args):
                env[n_] = a
            return self.ev(fn["body"], env)
        finally:
            self.depth -= 1


def parser_levels(F, ctx, pfile, entry, ops):
    """op -> (level of the function that builds it, level of its left-operand parser, level of its right-operand parser)"""
    fns = {f["name"]: f for f in F.syn["fns"] if f["file"] == pfile and not f.get("impl_self") and "tests" not in (f.get("mods") or "")}
    if entry not in fns:
        raise CheckError("parser entry %s not found in %s" % (entry, pfile))
    # fallback chain: a level function ends in a call of the next level on the whole input
    order = []
    cur = entry
    seen = set()
    while cur in fns and cur not in seen:
        seen.add(cur)
        order.append(cur)
        body = fns[cur]["body"]
        tail = body["stmts"][-1] if body.get("stmts") else None
        while tail is not None and tail.get("e") in ("ret", "paren", "try"):
            tail = tail.get("x")
        nxt = None
        if tail is not None and tail.get("e") == "call" and tail["f"].get("e") == "path" and tail["f"]["p"] in fns and tail["f"]["p"] != cur:
            nxt = tail["f"]["p"]
        if nxt is None:
            break
        cur = nxt
    level = {n: i for i, n in enumerate(order)}
    # the entry function itself may be a plain forwarder: give it the level of its target
    tab = {}
    for name, fn in fns.items():
        for n in syn_walk(fn["body"]):
            if n.get("e") == "struct" and last_seg(n["p"]) == "Binary" and "ArithExpr" in n["p"]:
                fd = dict((a, b) for (a, b) in n["fields"])
                opx = fd.get("op")
                if opx is None or opx.get("e") != "path" or last_seg(opx["p"]) not in ops:
                    continue

                def operand_parser(x):
                    for m in syn_walk(x):
                        if m.get("e") == "call" and m["f"].get("e") == "path" and m["f"]["p"] in fns:
                            return m["f"]["p"]
                    return None
                lp, rp = operand_parser(fd.get("left", {})), operand_parser(fd.get("right", {}))
                if name not in level or lp not in level or rp not in level:
                    raise CheckError("parser: %s builds %s with operand parsers %s / %s outside the precedence chain %s" % (name, opx["p"], lp, rp, order))
                ent = (level[name], level[lp], level[rp], "%s:%s" % (pfile, n["ln"]))
                op = last_seg(opx["p"])
                if op in tab and tab[op][:3] != ent[:3]:
                    raise CheckError("parser builds %s at two different levels" % op)
                tab[op] = ent
    return tab, order


def printer_table(F, ctx, ev, ast_file, ops):
    fn = F.syn_fn("fmt", file=ast_file, impl_self="ArithExpr")
    ms = [n for n in fn["body"]["stmts"] if n.get("e") == "match"]
    if not ms:
        raise CheckError("ArithExpr Display: no top-level match")
    arm = None
    for a in ms[0]["arms"]:
        p = a["pat"]
        if p.get("p") == "struct" and last_seg(p["path"]) == "Binary":
            arm = a
    if arm is None:
        raise CheckError("ArithExpr Display: no Binary arm")
    names = {}
    for (fname, fp) in arm["pat"]["fields"]:
        if fp.get("p") == "ident":
            names[fname] = fp["name"]
    if not all(k in names for k in ("op", "left", "right")):
        raise CheckError("ArithExpr Display: Binary arm does not bind op/left/right")
    body = arm["body"]
    stmts = body["stmts"] if body.get("e") == "block" else [body]
    table = {"left": {}, "right": {}}
    where = {}
    for P in ops:
        env = {names["op"]: P}
        for st in stmts:
            node = st
            while node.get("e") in ("semi", "try"):
                node = node["x"]
            if node.get("e") == "let":
                if node["pat"].get("p") == "ident" and node.get("init") is not None:
                    try:
                        env[node["pat"]["name"]] = ev.ev(node["init"], env)
                    except Unsupported:
                        pass
                continue
            for side in ("left", "right"):
                N = names[side]
                if node.get("e") == "match" and any(m.get("e") == "path" and m["p"] == N for m in syn_walk(node["on"])):
                    where[side] = "%s:%s" % (ast_file, node["ln"])
                    for C in ops:
                        res = None
                        for a in node["arms"]:
                            env2 = dict(env)
                            p = a["pat"]
                            while p.get("p") == "ref":
                                p = p["pat"]
                            if p.get("p") == "struct" and last_seg(p["path"]) == "Binary":
                                for (fname, fp) in p["fields"]:
                                    if fname == "op" and fp.get("p") == "ident":
                                        env2[fp["name"]] = C
                                    elif fname == "op" and fp.get("p") not in ("wild",):
                                        if not ev.pat_match(fp, C, env2):
                                            break
                                else:
                                    if a.get("guard") is None or ev.ev(a["guard"], env2):
                                        res = a
                                        break
                                continue
                            if p.get("p") in ("wild", "ident"):
                                res = a
                                break
                            # arms for other variants never match a Binary child
                        if res is None:
                            raise CheckError("printer: no arm applies to a Binary %s child" % side)
                        lits = [m["v"] for m in syn_walk(res["body"]) if m.get("e") == "lit" and m.get("t") == "str"]
                        paren = any(re.search(r"\(\s*\{%s?(:[^}]*)?\}\s*\)" % N, l) for l in lits)
                        table[side][(P, C)] = paren
                elif node.get("e") == "macro" and node.get("name") in ("write", "writeln") and side not in where:
                    lits = [m["v"] for m in syn_walk(node) if m.get("e") == "lit" and m.get("t") == "str"]
                    if any(("{%s}" % N) in l for l in lits):
                        where[side] = "%s:%s" % (ast_file, node["ln"])
                        paren = any(("({%s})" % N) in l for l in lits)
                        for C in ops:
                            table[side][(P, C)] = paren
    for side in ("left", "right"):
        if len(table[side]) != len(ops) * len(ops):
            raise CheckError("printer: could not tabulate the %s operand decision (%d of %d cells)" % (side, len(table[side]), len(ops) ** 2))
    return table, where


def run_clause(F, ctx):
    AST = "src/ast/mod.rs"
    PARSER = "src/parser/mod.rs"
    ops = F.variants("ast::ArithOp")
    ctx.rule("R-C09-d", "the arithmetic printer parenthesises every nested operand that the parser would otherwise regroup (ArithOp x ArithOp x {left,right} table)", floor=2 * len(ops) * len(ops))
    try:
        ptab, order = parser_levels(F, ctx, PARSER, "parse_arithmetic_expr", set(ops))
        missing = [o for o in ops if o not in ptab]
        if missing:
            raise CheckError("parser never builds ArithOp::%s" % missing[0])
        ev = Ev(F, "ArithOp", AST, ops)
        table, where = printer_table(F, ctx, ev, AST, ops)
    except Unsupported as u:
        raise CheckError("R-C09-d: printer decision uses a construct the table evaluator does not support (%s)" % u)
    for P in ops:
        (lvl, kl, kr, pw) = ptab[P]
        for C in ops:
            lc = ptab[C][0]
            for side, k_need in (("left", kl), ("right", kr)):
                need = lc < k_need
                has = table[side][(P, C)]
                ok = has or not need
                ctx.site("(%s) %s (%s) as %s operand: parser level %d, operand parser accepts level >= %d; parenthesised=%s" % (C, P, C, side, lc, k_need, has), where[side], ok=ok)
                if not ok:
                    ctx.violation("<ast::ArithExpr_as_std::fmt::Display>::fmt:R-C09-d:%s-%s-under-%s-unparenthesised" % (side, C, P),
                                  "a %s operand built with %s under %s is printed without parentheses, but the parser (%s) parses the %s operand of %s at level %d and %s binds at level %d: the printed text re-parses as a differently grouped expression, so a stored / session rule computes something else than the same rule inline" % (side, C, P, " -> ".join(order), side, P, k_need, C, lc), where[side])
    ctx.end_rule()
