"""C05 - IR rewrite passes preserve plan semantics (column-remapper clause + join-side classification)."""
import re
from ..core import CheckError, syn_walk, pat_paths, last_seg, op_local
from . import common, dur

PRED = "ir::Predicate"
EXPR = "ir::IRExpression"
REMAPPERS = [
    # (syn fn name, file, impl_self, enum adt, enum short name)
    ("remap_predicate", "src/join_planning/mod.rs", "JoinPlanner", PRED, "Predicate"),
    ("remap_expression", "src/join_planning/mod.rs", "JoinPlanner", EXPR, "IRExpression"),
    ("adjust_for_projection", "src/ir/mod.rs", "Predicate", PRED, "Predicate"),
]
# analysed when present in the non-test build (test-only since fix e0c05: the right-side push-down no longer uses a plain offset)
OPTIONAL_REMAPPERS = [
    ("adjust_predicate_columns", "src/optimizer/mod.rs", "Optimizer", PRED, "Predicate"),
]
COLLECTORS = [
    ("get_predicate_columns", "src/optimizer/mod.rs", "Optimizer"),
    ("collect_columns", "src/ir/mod.rs", "Predicate"),
]


def column_slots(F, adt):
    """variant -> list of slot kinds: 'col' (usize), 'colmap' (HashMap<String,usize>), 'rec' (nested same type), 'val'"""
    out = {}
    short = adt.split("::")[-1]
    for v in F.adt(adt)["variants"]:
        kinds = []
        for fd in v["fields"]:
            t = fd["ty"]
            if t == "usize":
                kinds.append((fd["name"], "col"))
            elif re.search(r"HashMap<std::string::String, usize>", t):
                kinds.append((fd["name"], "colmap"))
            elif short in t:
                kinds.append((fd["name"], "rec"))
            else:
                kinds.append((fd["name"], "val"))
        out[v["name"]] = kinds
    return out


class Src:
    """symbolic source set of an expression: {(binding, remapped)}"""
    pass


def pat_names(p):
    out = []
    k = p.get("p")
    if k == "ident":
        out.append(p["name"])
        if p.get("sub"):
            out += pat_names(p["sub"])
    elif k in ("ts", "tuple", "slice"):
        for e in p["elems"]:
            out += pat_names(e)
    elif k == "struct":
        for (_n, e) in p["fields"]:
            out += pat_names(e)
    elif k == "ref":
        out += pat_names(p["pat"])
    elif k == "or":
        for e in p["cases"]:
            out += pat_names(e)
    return out


class Analyzer:
    def __init__(self, fn_name, remap_names, enum_short):
        self.fn_name = fn_name
        self.remap = set(remap_names)
        self.enum_short = enum_short
        self.constructs = []  # (variant, [sources per arg], line)
        self.sinks = set()    # bindings that reach a collecting call (insert / push / extend / recursive call)

    def is_remap_call(self, callee_path):
        seg = last_seg(callee_path)
        return seg in self.remap or seg == self.fn_name

    def sources(self, e, env):
        """set of (binding, remapped) the expression's value derives from; records constructs on the way"""
        if e is None:
            return set()
        k = e.get("e")
        if k == "path":
            name = e["p"]
            if name in env:
                return set(env[name])
            return set()
        if k in ("lit",):
            return set()
        if k in ("un", "ref", "try", "await", "cast", "semi", "async"):
            return self.sources(e.get("x"), env)
        if k == "field":
            return self.sources(e["x"], env)
        if k == "index":
            return self.sources(e["x"], env) | self.sources(e["i"], env)
        if k == "bin":
            return self.sources(e["l"], env) | self.sources(e["r"], env)
        if k in ("tuple", "array"):
            s = set()
            for x in e["xs"]:
                s |= self.sources(x, env)
            return s
        if k == "struct":
            s = set()
            named = {}
            for (n_, x) in e["fields"]:
                named[n_] = self.sources(x, env)
                s |= named[n_]
            sp = e.get("p", "").split("::")
            if len(sp) == 2 and sp[0] == self.enum_short:
                self.constructs.append((sp[1], named, e["ln"]))
            return s
        if k == "macro":
            s = set()
            for x in e.get("args", []):
                s |= self.sources(x, env)
            return s
        if k == "call":
            f = e["f"]
            fp = f.get("p", "") if f.get("e") == "path" else ""
            argsrc = [self.sources(a, env) for a in e["args"]]
            if fp and last_seg(fp) and fp.split("::")[0] == self.enum_short and len(fp.split("::")) == 2:
                self.constructs.append((last_seg(fp), {str(i): a for i, a in enumerate(argsrc)}, e["ln"]))
                s = set()
                for a in argsrc:
                    s |= a
                return s
            s = set()
            for a in argsrc:
                s |= a
            if fp and self.is_remap_call(fp):
                self.sinks |= {b for (b, _r) in s}
                return {(b, True) for (b, _r) in s}
            if f.get("e") != "path":
                s |= self.sources(f, env)
            return s
        if k == "mcall":
            recv = self.sources(e["recv"], env)
            if e.get("m") == self.fn_name:
                # recursive remap of a nested predicate
                for a in e["args"]:
                    self.sources(a, env)
                self.sinks |= {b for (b, _r) in recv}
                return {(b, True) for (b, _r) in recv}
            s = set(recv)
            if e.get("m") in ("map", "filter_map", "flat_map", "and_then") and len(e["args"]) == 1 and e["args"][0].get("e") == "closure":
                # the result is what the closure returns for the receiver's element(s)
                s = set()
            for a in e["args"]:
                if a.get("e") == "closure":
                    env2 = dict(env)
                    # closure parameters take their value from the receiver (map / and_then / filter_map / for_each ...)
                    for p in a["params"]:
                        for nm in pat_names(p):
                            env2[nm] = set(recv)
                    s |= self.sources(a["body"], env2)
                else:
                    s |= self.sources(a, env)
            if e.get("m") in ("insert", "push", "extend", "extend_from_slice", "append"):
                for a in e["args"]:
                    self.sinks |= {b for (b, _r) in self.sources(a, env)}
            return s
        if k == "closure":
            return self.sources(e["body"], env)
        if k == "block":
            env2 = dict(env)
            s = set()
            for st in e["stmts"]:
                if st.get("e") == "let":
                    init = self.sources(st.get("init"), env2)
                    if st.get("else") is not None:
                        self.sources(st["else"], env2)
                    for nm in pat_names(st["pat"]):
                        env2[nm] = set(init)
                else:
                    s = self.sources(st, env2)
            return s
        if k == "if":
            c = e["cond"]
            env2 = dict(env)
            if c.get("e") == "letc":
                src = self.sources(c["x"], env)
                for nm in pat_names(c["pat"]):
                    env2[nm] = set(src)
            else:
                self.sources(c, env)
            return self.sources(e["then"], env2) | self.sources(e.get("else"), env)
        if k == "match":
            on = e["on"]
            parts = None
            if on.get("e") == "tuple":
                parts = [self.sources(x, env) for x in on["xs"]]
            whole = self.sources(on, env) if parts is None else set().union(*parts) if parts else set()
            s = set()
            for arm in e["arms"]:
                env2 = dict(env)
                p = arm["pat"]
                if parts is not None and p.get("p") == "tuple" and len(p["elems"]) == len(parts):
                    for sub, src in zip(p["elems"], parts):
                        for nm in pat_names(sub):
                            env2[nm] = set(src)
                else:
                    for nm in pat_names(p):
                        env2[nm] = set(whole)
                s |= self.sources(arm["body"], env2)
            return s
        if k in ("ret", "break"):
            return self.sources(e.get("x"), env)
        if k in ("for", "while", "loop"):
            env2 = dict(env)
            if k == "for":
                src = self.sources(e["iter"], env)
                for nm in pat_names(e["pat"]):
                    env2[nm] = set(src)
            return self.sources(e["body"], env2)
        if k == "assign":
            return self.sources(e["r"], env)
        return set()


def variant_binds(p, v):
    """slot name -> binding name for the pattern of variant v"""
    while p.get("p") == "ref":
        p = p["pat"]
    if p.get("p") == "or":
        cs = [c for c in p["cases"] if last_seg((c.get("path") or "")) == v]
        if not cs:
            return {}
        p = cs[0]
        while p.get("p") == "ref":
            p = p["pat"]
    out = {}
    if p.get("p") == "ts":
        for i, e_ in enumerate(p["elems"]):
            nm = pat_names(e_)
            out[str(i)] = nm[0] if nm else None
    elif p.get("p") == "struct":
        for (n_, e_) in p["fields"]:
            nm = pat_names(e_)
            out[n_] = nm[0] if nm else None
    return out


def analyse_remapper(F, ctx, name, file, impl_self, adt, short):
    fn = F.syn_fn(name, file=file, impl_self=impl_self)
    slots = column_slots(F, adt)
    # the remap closures: `let NAME = |..| ..;` at the top of the body
    remap_names = []
    for st in fn["body"]["stmts"]:
        if st.get("e") == "let" and (st.get("init") or {}).get("e") == "closure":
            remap_names += pat_names(st["pat"])
    ms = [n for n in fn["body"]["stmts"] if n.get("e") == "match"]
    if not ms:
        raise CheckError("%s: top-level match not found" % name)
    m = ms[0]
    seen = set()
    for arm in m["arms"]:
        ps, w = pat_paths(arm["pat"])
        where = "%s:%s" % (file, arm["ln"])
        if w and not ps:
            ctx.site("%s: wildcard arm" % name, where, ok=False)
            ctx.violation("%s::%s:R-C05-a:wildcard-arm" % (impl_self, name), "%s has a wildcard arm: a new %s variant would pass through with its column indices un-remapped" % (name, short), where)
            continue
        for vp in ps:
            v = last_seg(vp)
            seen.add(v)
            kinds = slots.get(v)
            if kinds is None:
                raise CheckError("%s: unknown variant %s" % (name, v))
            binds = variant_binds(arm["pat"], v)
            env = {b: {(b, False)} for b in binds.values() if b}
            an = Analyzer(name, remap_names, short)
            an.sources(arm["body"], env)
            cons = [c for c in an.constructs]
            if not kinds:
                ok = all(c[0] == v for c in cons)
                ctx.site("%s: %s::%s" % (name, short, v), where, ok=ok)
                if not ok:
                    ctx.violation("%s::%s:R-C05-b:%s:variant-changed" % (impl_self, name, v), "%s maps %s::%s to %s" % (name, short, v, [c[0] for c in cons]), where)
                continue
            if not cons:
                raise CheckError("%s: arm %s constructs no %s" % (name, v, short))
            special_and = (name == "adjust_for_projection" and v == "And")
            for (w_, argsrc, ln) in cons:
                problems = []
                if w_ != v and not special_and:
                    problems.append("builds %s::%s" % (short, w_))
                if w_ == v:
                    for (k, kind) in kinds:
                        if k not in argsrc:
                            problems.append("slot %s is not rebuilt" % k)
                            continue
                        src = argsrc[k]
                        names = {b for (b, _r) in src}
                        bk = binds.get(k)
                        if kind in ("col", "colmap", "rec"):
                            if bk is None or names != {bk}:
                                problems.append("slot %s is built from %s instead of `%s`" % (k, sorted(names) or "nothing", bk))
                            elif kind == "col" and not all(r for (_b, r) in src):
                                problems.append("slot %s (`%s`) is not passed through the remap function" % (k, bk))
                            elif kind != "col" and not any(r for (_b, r) in src):
                                problems.append("slot %s (`%s`) is not passed through the remap function" % (k, bk))
                        else:
                            if bk is None:
                                if names:
                                    problems.append("non-column slot %s mixes in %s" % (k, sorted(names)))
                                continue
                            if names - {bk}:
                                problems.append("non-column slot %s mixes in %s" % (k, sorted(names - {bk})))
                            if bk not in names:
                                problems.append("non-column slot %s does not come from `%s`" % (k, bk))
                ok = not problems
                ctx.site("%s: %s::%s -> %s" % (name, short, v, w_), "%s:%s" % (file, ln), ok=ok)
                if problems:
                    ctx.violation("%s::%s:R-C05-b:%s:%s" % (impl_self, name, v, "+".join(sorted({p_.split(" ")[0] + (p_.split(" ")[1] if p_.startswith("slot") else "") for p_ in problems}))),
                                  "%s, arm %s::%s: %s - the rewritten predicate refers to other columns than the original" % (name, short, v, "; ".join(problems)), "%s:%s" % (file, ln))
    missing = [v for v in slots if v not in seen]
    for v in missing:
        ctx.violation("%s::%s:R-C05-a:%s:no-arm" % (impl_self, name, v), "%s has no arm for %s::%s" % (name, short, v), "%s:%s" % (file, fn["line"]))
    return len(seen)


def analyse_collector(F, ctx, name, file, impl_self):
    fn = F.syn_fn(name, file=file, impl_self=impl_self)
    slots = column_slots(F, PRED)
    ms = [n for n in syn_walk(fn["body"]) if n.get("e") == "match"]
    if not ms:
        raise CheckError("%s: no match" % name)
    m = ms[0]
    seen = set()
    for arm in m["arms"]:
        ps, w = pat_paths(arm["pat"])
        where = "%s:%s" % (file, arm["ln"])
        if w and not ps:
            ctx.violation("%s::%s:R-C05-c:wildcard-arm" % (impl_self, name), "%s has a wildcard arm: columns of a new predicate variant would not be collected" % name, where)
            continue
        p = arm["pat"]
        cases = p["cases"] if p.get("p") == "or" else [p]
        for c in cases:
            while c.get("p") == "ref":
                c = c["pat"]
            v = last_seg(c.get("path", ""))
            seen.add(v)
            kinds = slots.get(v, [])
            binds = variant_binds(c, v)
            an = Analyzer(name, [], "Predicate")
            env = {b: {(b, False)} for b in binds.values() if b}
            tail = an.sources(arm["body"], env)
            mentioned = an.sinks | {b for (b, _r) in tail}
            need = [binds.get(k) for (k, kind) in kinds if kind in ("col", "colmap", "rec")]
            ok = all(b is not None and b in mentioned for b in need)
            ctx.site("%s: %s collects %s" % (name, v, need), where, ok=ok)
            if not ok:
                ctx.violation("%s::%s:R-C05-c:%s:column-not-collected" % (impl_self, name, v), "%s does not collect every column slot of Predicate::%s (%s): a rewrite that relies on it (push-down side classification, projection pruning) misjudges which columns the predicate needs" % (name, v, [b for b in need if b is None or b not in mentioned]), where)
    for v in slots:
        if v not in seen:
            ctx.violation("%s::%s:R-C05-c:%s:no-arm" % (impl_self, name, v), "%s has no arm for Predicate::%s" % (name, v), "%s:%s" % (file, fn["line"]))


def run(F, ctx):
    ctx.explanation = (
        "Decides the shape clauses of the rewrite passes: (a) every column-index remapper matches every variant of Predicate / IRExpression without a default arm; (b) each "
        "arm is a homomorphism - it rebuilds the same variant, every column slot (usize, name->column map, nested predicate) is built from the matched value's own slot and only "
        "through the function's remap closure (or the recursive call), non-column slots come from their own field - decided by a small symbolic evaluation of the arm over the "
        "syntax tree that follows let / closure-parameter / match-tuple bindings; (c) the two column collectors: every column slot of every variant reaches the result (returned value, or an insert/push/extend/recursive call); (d) filter push-down "
        "classifies a predicate's join side from *all* its referenced columns (a universally / existentially quantified scan of the collector's result), not from selected "
        "elements. Not decided: that an individual rewrite (push-down, fusion, reordering) preserves the denoted relation on data."
    )
    ctx.rule("R-C05-ab", "remappers: exhaustive, variant-preserving, every column slot remapped from its own field", floor=72)
    n = 0
    for (name, file, impl_self, adt, short) in REMAPPERS:
        n += analyse_remapper(F, ctx, name, file, impl_self, adt, short)
    for (name, file, impl_self, adt, short) in OPTIONAL_REMAPPERS:
        try:
            F.syn_fn(name, file=file, impl_self=impl_self)
        except CheckError:
            continue
        n += analyse_remapper(F, ctx, name, file, impl_self, adt, short)
    ctx.end_rule()

    ctx.rule("R-C05-c", "collectors: every column slot of every variant reaches the result (returned value, or an insert/push/extend/recursive call)", floor=60)
    for (name, file, impl_self) in COLLECTORS:
        analyse_collector(F, ctx, name, file, impl_self)
    ctx.end_rule()

    # ---- d: join-side classification in push-down
    ctx.rule("R-C05-d", "filter push-down decides the join side of a predicate from all of its referenced columns", floor=1)
    f = F.fn("optimizer::Optimizer::pushdown_filters")
    cols = [c for c in f.normal_calls() if c.resolved == "optimizer::Optimizer::get_predicate_columns"]
    if not cols:
        raise CheckError("pushdown_filters no longer calls get_predicate_columns")
    for c in cols:
        d = f.derive({c.dst["l"]}, through_calls=True)
        scans = [x for x in f.normal_calls() if re.search(r"Iterator>::(all|any)::<", x.static_args or "") and op_local(x.args[0]) in d]
        picks = [x for x in f.normal_calls() if re.search(r"<impl \[usize\]>::(first|last|get|iter\b.*nth)|Vec::<usize>::(first|last|pop)|Index<usize>>::index", x.static_args or "") and op_local(x.args[0]) in d]
        picks = [x for x in picks if not re.search(r"::iter$", x.static_args or "")]
        ok = len(scans) >= 2 and not picks
        ctx.site("side classification after get_predicate_columns at line %s" % c.line, c.where(), ok=ok, quantified_scans=len(scans), element_picks=len(picks))
        if not ok:
            ctx.violation("optimizer::Optimizer::pushdown_filters:R-C05-d:side-from-selected-columns", "pushdown_filters classifies which join input a predicate belongs to from selected elements of its column list (first/last/index) instead of scanning all referenced columns: a conjunction whose columns are [left, right, left] is pushed into one input and evaluates on a column that does not exist there", (picks[0] if picks else c).where())
    ctx.end_rule()

    # ---- e: translation of a predicate pushed into the right join input
    ctx.rule("R-C05-e", "a predicate pushed into the right join input is translated by a function of the join's right key columns", floor=2)
    from ..core import place_fields
    IR = "ir::IRNode"

    def join_field_locals(field):
        out = set()
        for i in range(f.n):
            for st in f.stmts(i):
                rv = st["r"]
                pl = rv.get("p") or (rv.get("o") or {}).get("m") or (rv.get("o") or {}).get("c")
                if rv.get("k") == "use":
                    o = rv.get("o", {})
                    pl = o.get("m") or o.get("c")
                if pl and any(a == IR and fd == field for (a, fd) in place_fields(pl)) and any(isinstance(x, dict) and x.get("v") == "Join" for x in pl.get("p", [])):
                    out.add(st["d"]["l"])
        return out
    rk = join_field_locals("right_keys")
    rt = join_field_locals("right")
    if not rk or not rt:
        raise CheckError("pushdown_filters: Join fields right / right_keys not destructured (anchor moved)")
    rk_d = f.derive(rk, through_calls=True)
    rt_d = f.derive(rt, through_calls=False)
    n_right = 0
    for i in sorted(f.live_blocks()):
        for st in f.stmts(i):
            rv = st["r"]
            if rv.get("k") == "agg" and rv.get("adt") == IR and rv.get("var") == "Filter":
                inp, pr = op_local(rv["ops"][0]), op_local(rv["ops"][1])
                if inp is None or not (common.origins(f, inp) & rt_d):
                    continue
                n_right += 1
                ok = pr in rk_d
                ctx.site("Filter pushed into the right join input", f.where(i), ok=ok)
                if not ok:
                    ctx.violation("optimizer::Optimizer::pushdown_filters:R-C05-e:right-push-ignores-right-keys", "the predicate pushed into the right join input is computed without looking at the join's right key columns: a keyed join emits only the right input's non-key columns, so join-output column left_cols+k is not right column k whenever a key column precedes it - the pushed filter tests another column than the original", f.where(i))
    if n_right == 0:
        ctx.site("no filter is pushed into the right join input", f.where(), ok=True)
    # the translating callee(s) really use the key columns
    n_callee = 0
    for c in f.normal_calls():
        g = c.resolved
        if not g or g not in F.bodies or not c.dst or c.dst["l"] not in rk_d:
            continue
        for j, a in enumerate(c.args):
            al = op_local(a)
            if al is None or al not in rk_d:
                continue
            gf = F.fn(g)
            if "Predicate" not in (gf.b["locals"][0] or ""):
                continue
            n_callee += 1
            ok = 0 in gf.derive({j + 1}, through_calls=True)
            ctx.site("%s: result depends on the right-key argument" % g.split("::")[-1], gf.where(), ok=ok)
            if not ok:
                ctx.violation("%s:R-C05-e:right-keys-unused" % g, "%s receives the join's right key columns but its result does not depend on them" % g, gf.where())
    if n_right and not n_callee:
        raise CheckError("R-C05-e: no translating callee found for the right push-down")
    ctx.end_rule()
