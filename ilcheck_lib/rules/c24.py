"""C24 - vector index search returns valid nearest neighbours (liveness / bound clauses)."""
import re
from ..core import CheckError, op_local, proj
from . import common

SEARCH = "<hnsw_index::HnswIndex as index_manager::Index>::search"
REBUILD_HNSW = "hnsw_index::HnswIndex::rebuild_hnsw"
DELETE = "<hnsw_index::HnswIndex as index_manager::Index>::delete"
HIDX = "hnsw_index::HnswIndex"
_CONTAINS = re.compile(r"^std::collections::HashSet::<.*>::contains")
_LEN = re.compile(r"^std::collections::HashSet::<.*>::len$")


def some_blocks(f):
    """blocks that write Some(..) to the return place"""
    out = []
    some_locals = set()
    for i in range(f.n):
        for st in f.stmts(i):
            rv = st["r"]
            if rv.get("k") == "agg" and rv.get("adt") == "std::option::Option" and rv.get("var") == "Some":
                if st["d"]["l"] == 0 and not proj(st["d"]):
                    out.append(i)
                else:
                    some_locals.add(st["d"]["l"])
    for i in range(f.n):
        for st in f.stmts(i):
            rv = st["r"]
            if st["d"]["l"] == 0 and not proj(st["d"]) and rv.get("k") == "use" and op_local(rv["o"]) in some_locals:
                out.append(i)
    return out


def run(F, ctx):
    ctx.explanation = (
        "Decides: (a) every result-producing closure of HnswIndex::search yields an id only on the not-tombstoned side of a tombstone "
        "membership test (delete only records a tombstone; the graph keeps the point until the next rebuild), and the number of candidates "
        "requested from the graph is over-fetched by the tombstone count so that k live results stay reachable; (b) results are sorted and "
        "then truncated to the caller's k; (c) the graph rebuild filters stored vectors by the tombstone set. "
        "Not decided: recall of the graph search, exact distances, order among equal distances."
    )
    s = F.fn(SEARCH)
    # ---- a
    ctx.rule("R-C24-a", "search yields ids only on the live side of a tombstone test; candidate count over-fetched by tombstone count", floor=3)
    if not any(fd == "tombstones" for fdv in F.adt(HIDX)["variants"] for fd in [x["name"] for x in fdv["fields"]]):
        raise CheckError("HnswIndex has no `tombstones` field (anchor moved)")
    producers = []
    for n in F.with_closures(SEARCH):
        if n == SEARCH:
            continue
        g = F.fn(n)
        if re.match(r"^std::option::Option<\(usize, f64\)>$", g.ty(0)) or (g.ty(0).startswith("std::option::Option<(") and "f64" in g.ty(0)):
            producers.append(g)
    if not producers:
        # results may be produced inline: then the same obligation applies to search itself
        raise CheckError("no result-producing closure (returning Option<(TupleId, f64)>) found in search")
    for g in producers:
        sb = some_blocks(g)
        cs = [c for c in g.normal_calls() if _CONTAINS.match(c.static_args or "") and "HashSet::<usize>" in (c.static_args or "")]
        ok = False
        why = "no tombstone membership test in the closure"
        for c in cs:
            br = common.branch_on_result(g, c)
            if br is None:
                why = "tombstone test result is not branched on"
                continue
            (sw, false_t, true_t) = br
            if sb and all(g.dominates(false_t, b) for b in sb) and not any(b in g.reachable_from([true_t]) and not g.dominates(false_t, b) for b in sb):
                ok = True
        ctx.site("result closure %s" % g.name, g.where(), ok=ok, some_blocks=len(sb), tombstone_tests=len(cs))
        if not ok:
            ctx.violation("%s:R-C24-a:result-not-guarded-by-tombstone-test" % g.name, "search can yield an id without testing it against the tombstone set (%s): a deleted vector is returned until the next rebuild" % why, g.where())
    # over-fetch
    hs = [c for c in s.normal_calls() if re.match(r"^hnsw_rs::hnsw::Hnsw::<.*>::search$", c.static_args or "")]
    if not hs:
        raise CheckError("search no longer calls Hnsw::search")
    lens = [c for c in s.normal_calls() if _LEN.match(c.static_args or "") and "HashSet::<usize>" in (c.static_args or "")]
    derived = set()
    for lc in lens:
        derived |= s.derive({lc.dst["l"]}, through_calls=True)
    for h in hs:
        kl = op_local(h.args[2]) if len(h.args) > 2 else None
        ok = kl is not None and kl in derived
        ctx.site("candidate count of graph search", h.where(), ok=ok)
        if not ok:
            ctx.violation("%s:R-C24-a:no-overfetch" % SEARCH, "the number of candidates requested from the graph does not depend on the tombstone count: with d deleted neighbours a search returns fewer than min(k, live) results", h.where())
    ctx.end_rule()

    # ---- b
    ctx.rule("R-C24-b", "results are sorted by distance, then truncated to the caller's k", floor=1)
    sorts = [c for c in s.normal_calls() if re.search(r"::sort(_unstable)?_by", c.static_args or "")]
    truncs = [c for c in s.normal_calls() if re.search(r"Vec::<.*>::truncate$", c.static_args or "")]
    kparam = 3  # _1 self, _2 query, _3 k
    kd = s.derive({kparam}, through_calls=False)
    # `k.min(len)` / `min(k, len)` is still a bound by k
    for c in s.normal_calls():
        if re.search(r"(std::cmp::Ord>::min|std::cmp::min)(::<.*>)?$", c.static_args or "") and any(op_local(a) in kd for a in c.args):
            kd = kd | s.derive({c.dst["l"]}, through_calls=False)
    ok = bool(sorts) and bool(truncs) and any(s.dominates(so.bb, tr.bb) for so in sorts for tr in truncs) and any(op_local(tr.args[1]) in kd for tr in truncs)
    ret_ok = True
    ctx.site("sort then truncate(k)", s.where(), ok=ok, sorts=len(sorts), truncates=len(truncs))
    if not ok:
        ctx.violation("%s:R-C24-b:sort-truncate" % SEARCH, "search no longer sorts its results before truncating them to the caller's k (at most k results, nearest first)", s.where())
    ctx.end_rule()

    # ---- c
    ctx.rule("R-C24-c", "rebuild_hnsw filters stored vectors by the tombstone set", floor=1)
    rb = F.fn(REBUILD_HNSW)
    reads = common.calls_on_field(rb, "tombstones", callee_pat=re.compile(r"RwLock::<.*>::read$"))
    filt = []
    for n in F.with_closures(REBUILD_HNSW):
        g = F.fn(n)
        for c in g.normal_calls():
            if _CONTAINS.match(c.static_args or "") and "HashSet::<usize>" in (c.static_args or ""):
                filt.append(c)
    ok = bool(reads) and bool(filt)
    ctx.site("rebuild_hnsw", rb.where(), ok=ok, tombstone_reads=len(reads), membership_tests=len(filt))
    if not ok:
        ctx.violation("%s:R-C24-c:no-tombstone-filter" % REBUILD_HNSW, "the graph rebuild does not filter stored vectors by the tombstone set: deleted vectors re-enter the graph", rb.where())
    ctx.end_rule()

    # ---- d
    ctx.rule("R-C24-d", "the graph's vectors and its index->id table are both built from the tombstone-filtered vector list", floor=2)
    vreads = [c for c in rb.normal_calls() if re.search(r"RwLock::<.*Vec<\(usize, std::vec::Vec<f32>\)>>::read$", c.static_args or "")]
    if not vreads:
        raise CheckError("rebuild_hnsw no longer reads the stored vector list (anchor moved)")
    seeds = {c.dst["l"] for c in vreads}
    filt_closures = {c.fn.name for c in filt}
    fcalls = []
    for c in rb.normal_calls():
        if re.search(r"Iterator>::(filter|filter_map)::<", c.static_args or ""):
            for a in c.args[1:]:
                al = op_local(a)
                for i in range(rb.n):
                    for st in rb.stmts(i):
                        rv = st["r"]
                        if st["d"]["l"] == al and rv.get("k") == "agg" and rv.get("ak") == "closure" and rv["def"] in filt_closures:
                            fcalls.append(c)
    if not fcalls:
        raise CheckError("rebuild_hnsw: no Iterator::filter whose closure tests the tombstone set")
    pats = [re.compile(re.escape(c.static_args)) for c in fcalls]
    all_d = rb.derive(seeds, through_calls=True)
    cut_d = rb.derive(seeds, through_calls=True, stop_calls=pats)
    n_ops = 0
    for i in sorted(rb.live_blocks()):
        for st in rb.stmts(i):
            rv = st["r"]
            if rv.get("k") == "agg" and rv.get("adt") == "hnsw_index::HnswInnerOwned":
                for fd, o in zip(rv["fields"], rv["ops"]):
                    if fd not in ("_storage", "index_to_tuple_id"):
                        continue
                    n_ops += 1
                    ol = op_local(o)
                    ok = ol in all_d and ol not in cut_d
                    ctx.site("HnswInnerOwned.%s comes from the filtered list only" % fd, rb.where(i), ok=ok)
                    if not ok:
                        ctx.violation("%s:R-C24-d:%s-bypasses-tombstone-filter" % (REBUILD_HNSW, fd), "HnswInnerOwned.%s is (also) built from the unfiltered stored vectors: graph index i then names a different vector than the i-th entry of the id table, so search returns ids with another vector's distance" % fd, rb.where(i))
    for c in rb.normal_calls():
        if re.match(r"^hnsw_rs::hnsw::Hnsw::<.*>::(insert|parallel_insert)", c.static_args or ""):
            ol = op_local(c.args[1])
            ok = ol in all_d and ol not in cut_d
            n_ops += 1
            ctx.site("vectors inserted into the graph come from the filtered list only", c.where(), ok=ok)
            if not ok:
                ctx.violation("%s:R-C24-d:graph-insert-bypasses-tombstone-filter" % REBUILD_HNSW, "rebuild_hnsw inserts vectors into the graph that do not come through the tombstone filter", c.where())
    if n_ops < 2:
        raise CheckError("rebuild_hnsw: HnswInnerOwned construction not found")
    ctx.end_rule()
