"""Shared by C21 and C23: the prover's handling of negated atoms consults the same fact sources as its handling of positive atoms."""
from ..core import CheckError

BP = "ast::BodyPredicate"
PC_SUFFIX = "ProofContext"
SOURCES = ("base_data", "derived_data")


def arm_sources(F, f):
    """per BodyPredicate variant: the ProofContext data fields read in the arm's exclusive region"""
    out = []
    for (bb, adt, pl, mm, other) in f.enum_switches(BP):
        if "Positive" not in mm or "Negated" not in mm:
            continue
        targets = list(mm.values()) + ([other] if other is not None else [])
        per = {}
        for v in ("Positive", "Negated"):
            region = f.arm_region(targets, mm[v], stop={bb})
            flds = set()
            for (b2, kind, a2, fld, line, pl2) in f.field_accesses():
                if b2 in region and a2.endswith(PC_SUFFIX) and fld in SOURCES:
                    flds.add(fld)
            # lookups made through helpers of the provenance module called from the arm (wrapper summary, bound 2)
            seen = set()
            todo = [(c.resolved, 1) for c in f.normal_calls() if c.bb in region and (c.resolved or "").startswith("provenance::") and c.resolved != f.name]
            while todo:
                (n, d) = todo.pop()
                if n in seen or n not in F.bodies or d > 2:
                    continue
                seen.add(n)
                g = F.fn(n)
                for (b2, kind, a2, fld, line, pl2) in g.field_accesses():
                    if a2.endswith(PC_SUFFIX) and fld in SOURCES:
                        flds.add(fld)
                for c in g.normal_calls():
                    if (c.resolved or "").startswith("provenance::") and c.resolved != f.name:
                        todo.append((c.resolved, d + 1))
            per[v] = flds
        out.append((bb, per))
    return out


def check(F, ctx, fn_name, prop, what):
    f = F.fn(fn_name)
    sw = arm_sources(F, f)
    if not sw:
        raise CheckError("%s: no dispatch over BodyPredicate with Positive and Negated arms (anchor moved)" % fn_name)
    for (bb, per) in sw:
        pos, neg = per["Positive"], per["Negated"]
        if not pos:
            raise CheckError("%s: the Positive arm reads no fact source of the proof context" % fn_name)
        missing = sorted(pos - neg)
        ctx.site("%s: fact sources consulted - positive atom %s, negated atom %s" % (fn_name.split("::")[-1], sorted(pos), sorted(neg)), f.where(bb), ok=not missing)
        if missing:
            ctx.violation("%s:R-%s-a:negated-atom-ignores-%s" % (fn_name, prop, "+".join(missing)),
                          "%s looks a positive atom up in %s but a negated atom only in %s: when the negated relation is a derived one its facts are invisible, so %s" % (fn_name.split("::")[-1], sorted(pos), sorted(neg), what), f.where(bb))
