"""C28 - role permissions form a lattice and viewers are read-only (whole property over the extracted tables)."""
import re
from ..core import CheckError, syn_walk, pat_paths, last_seg
from . import common

AUTH_FILE = "src/auth.rs"
ST = "statement::Statement"
MC = "statement::meta::MetaCommand"
QJ = "protocol::handler::QueryJob::execute"
ADMIN_ONLY = re.compile(r"^(Compact|User\w+|ApiKey\w+)$")

# durable-state sinks: a viewer-permitted statement kind must not reach any of them from its executor arm
SINKS = [
    re.compile(r"^storage::persist::PersistBackend::(append|flush|compact|delete_shard|ensure_shard)$"),
    re.compile(r"^<storage::persist::FilePersist as storage::persist::PersistBackend>::(append|flush|compact|delete_shard|ensure_shard)$"),
    re.compile(r"^rule_catalog::RuleCatalog::save$"),
    re.compile(r"^schema::catalog::SchemaCatalog::save$"),
    re.compile(r"^storage::metadata::KnowledgeGraphsMetadata::save$"),
    re.compile(r"^index_manager::IndexManager::(save_indexes|create_index|drop_index|register_index)$"),
]


class Tables:
    def __init__(self, F):
        self.F = F
        self.fns = {}

    def fn(self, name):
        if name not in self.fns:
            self.fns[name] = self.F.syn_fn(name, file=AUTH_FILE)
        return self.fns[name]

    def eval_fn(self, name, env):
        """env: {'role': 'Admin'|..., 'kg_role': .., 'stmt': kind, 'cmd': kind or None}; params are bound positionally by name"""
        f = self.fn(name)
        body = f["body"]
        stmts = body["stmts"]
        if len(stmts) != 1:
            raise CheckError("%s: body is not a single expression" % name)
        return self.eval(stmts[0], env, name)

    def match_pat(self, pat, subject_kind, env):
        """does pattern match the current value of the scrutinee? subject_kind: ('role', v) | ('stmt', kind, cmd) | ('cmd', kind)"""
        k = pat.get("p")
        if k == "wild":
            return True, {}
        if k == "or":
            for c in pat["cases"]:
                ok, b = self.match_pat(c, subject_kind, env)
                if ok:
                    return True, b
            return False, {}
        if k == "ref":
            return self.match_pat(pat["pat"], subject_kind, env)
        if k == "ident" and not pat.get("sub"):
            return True, {pat["name"]: subject_kind}
        if k in ("path", "ts", "struct"):
            v = last_seg(pat["path"])
            if subject_kind[0] == "role":
                return v == subject_kind[1], {}
            if subject_kind[0] == "stmt":
                if v == "Meta":
                    if subject_kind[2] is None:
                        return False, {}
                    b = {}
                    if k == "ts" and pat["elems"]:
                        e = pat["elems"][0]
                        if e.get("p") == "ident":
                            b[e["name"]] = ("cmd", subject_kind[2])
                        elif e.get("p") in ("path", "ts", "struct", "or"):
                            ok, b2 = self.match_pat(e, ("cmd", subject_kind[2]), env)
                            return ok, b2
                    return True, b
                return subject_kind[2] is None and v == subject_kind[1], {}
            if subject_kind[0] == "cmd":
                return v == subject_kind[1], {}
        raise CheckError("unrecognised pattern shape %s" % pat)

    def value_of(self, e, env):
        """scrutinee / argument: a path naming a bound variable (through * and &)"""
        while e.get("e") in ("un", "ref"):
            e = e["x"]
        if e.get("e") == "path" and e["p"] in env:
            return env[e["p"]]
        raise CheckError("unrecognised scrutinee %s" % e)

    def eval(self, e, env, where):
        k = e.get("e")
        if k == "semi":
            return self.eval(e["x"], env, where)
        if k == "block":
            if len(e["stmts"]) != 1:
                raise CheckError("%s: block with %d statements" % (where, len(e["stmts"])))
            return self.eval(e["stmts"][0], env, where)
        if k == "call":
            fp = e["f"].get("p", "")
            if last_seg(fp) == "Ok":
                return "ok"
            if last_seg(fp) == "Err":
                return "err"
            # delegation to another table function: bind its parameters positionally
            callee = last_seg(fp)
            cf = self.fn(callee)
            pnames = [p.split(":")[0].strip() for p in cf["params"]]
            args = [self.value_of(a, env) for a in e["args"]]
            if len(pnames) != len(args):
                raise CheckError("%s: arity mismatch calling %s" % (where, callee))
            return self.eval_fn(callee, dict(zip(pnames, args)))
        if k == "match":
            subj = self.value_of(e["on"], env)
            for arm in e["arms"]:
                if arm.get("guard"):
                    raise CheckError("%s: guarded arm in a permission table" % where)
                ok, b = self.match_pat(arm["pat"], subj, env)
                if ok:
                    env2 = dict(env)
                    env2.update(b)
                    return self.eval(arm["body"], env2, where)
            raise CheckError("%s: no arm matches %s" % (where, subj))
        if k == "if":
            c = e["cond"]
            if c.get("e") == "bin" and c["op"] in ("==", "!="):
                l, r = c["l"], c["r"]
                lv = self.value_of(l, env)
                if r.get("e") != "path" or lv[0] != "role":
                    raise CheckError("%s: unsupported condition" % where)
                eq = last_seg(r["p"]) == lv[1]
                take = eq if c["op"] == "==" else not eq
                br = e["then"] if take else e["else"]
                if br is None:
                    raise CheckError("%s: if without else" % where)
                return self.eval(br, env, where)
            raise CheckError("%s: unsupported condition shape" % where)
        raise CheckError("%s: unsupported expression kind %s in a permission table" % (where, k))


def run(F, ctx):
    ctx.level = "proof"
    ctx.trusted_base = ["rustc's exhaustiveness checking of the four permission matches", "the syn-based table extractor (tools/ilsyn) and the table evaluator in ilcheck_lib/rules/c28.py",
                        "MIR call graph (tools/ilfacts) for the read-only obligation, over-approximate by construction"]
    ctx.explanation = (
        "The permission relation is four match tables over a finite domain. They are extracted from the source and evaluated symbolically for every (role, statement kind) "
        "pair: 3 global roles x 60 kinds and 3 per-KG roles x 60 kinds. Obligations: (1) pointwise monotonicity viewer <= editor <= owner and viewer <= editor <= admin; "
        "(2) every kind a KG viewer is permitted reaches no durable-state sink from its executor arm; (3) compaction, user and API-key management are denied to every "
        "non-admin global role. Any table construct the evaluator does not understand is a CHECK-ERROR, never a silent pass."
    )
    T = Tables(F)
    st_kinds = [v for v in F.variants(ST) if v != "Meta"]
    mc_kinds = F.variants(MC)
    kinds = [("stmt", k, None) for k in st_kinds] + [("stmt", "Meta", k) for k in mc_kinds]

    def label(kd):
        return kd[1] if kd[2] is None else "." + kd[2]

    G, K = {}, {}
    for role in F.variants("auth::Role"):
        for kd in kinds:
            G[(role, label(kd))] = T.eval_fn("authorize_statement", {"role": ("role", role), "stmt": kd})
    for role in F.variants("auth::KgRole"):
        for kd in kinds:
            K[(role, label(kd))] = T.eval_fn("authorize_kg_operation", {"kg_role": ("role", role), "stmt": kd})
    ctx.extra["kinds"] = len(kinds)
    ctx.extra["G_viewer_ok"] = sorted(l for (r, l), v in G.items() if r == "Viewer" and v == "ok")
    ctx.extra["K_viewer_ok"] = sorted(l for (r, l), v in K.items() if r == "Viewer" and v == "ok")

    # ---- 1 lattice
    ctx.rule("R-C28-1", "monotone tables: viewer <= editor <= owner (per-KG) and viewer <= editor <= admin (global), pointwise over all statement kinds", floor=4 * len(kinds))
    for (tab, name, chain) in ((K, "per-KG", ["Viewer", "Editor", "Owner"]), (G, "global", ["Viewer", "Editor", "Admin"])):
        for lo, hi in zip(chain, chain[1:]):
            for kd in kinds:
                l = label(kd)
                ok = not (tab[(lo, l)] == "ok" and tab[(hi, l)] != "ok")
                ctx.site("%s %s<=%s on %s" % (name, lo, hi, l), AUTH_FILE, ok=ok)
                if not ok:
                    ctx.violation("auth:R-C28-1:%s:%s-over-%s:%s" % (name, lo, hi, l), "%s table: `%s` is permitted to %s but denied to %s" % (name, l, lo, hi), AUTH_FILE)
    ctx.end_rule()

    # ---- 3 admin-only
    ctx.rule("R-C28-3", "compaction, user management and API-key management are denied to every non-admin global role", floor=10)
    for kd in kinds:
        l = label(kd)
        if kd[2] is not None and ADMIN_ONLY.match(kd[2]):
            for role in ("Editor", "Viewer"):
                ok = G[(role, l)] == "err"
                ctx.site("global %s on %s" % (role, l), AUTH_FILE, ok=ok)
                if not ok:
                    ctx.violation("auth:R-C28-3:%s:%s" % (role, l), "global role %s is permitted the admin-only command `%s`" % (role, l), AUTH_FILE)
            ok = G[("Admin", l)] == "ok"
            ctx.site("global Admin on %s" % l, AUTH_FILE, ok=ok)
    ctx.end_rule()

    # ---- 2 viewer read-only
    ctx.rule("R-C28-2", "every statement kind a KG viewer is permitted reaches no durable-state sink from its executor arm", floor=20)
    q = F.fn(QJ)
    arms = {}
    # statement-level switches
    st_sw = [s for s in q.enum_switches(ST)]
    mc_sw = [s for s in q.enum_switches(MC)]
    if not st_sw or not mc_sw:
        raise CheckError("QueryJob::execute: statement / meta-command dispatch not found")
    big_st = max(st_sw, key=lambda s: len(s[3]))
    big_mc = max(mc_sw, key=lambda s: len(s[3]))
    cg = F.callgraph()

    def sink_hits(region_calls):
        hits = []
        seen = set()
        for c in region_calls:
            names = [c.resolved, c.static]
            for nm in names:
                if nm and any(p.match(nm) for p in SINKS):
                    hits.append((c, [nm]))
            r = c.resolved
            if r in F.bodies and r not in seen:
                seen.add(r)
                for tgt in F.reach([r]):
                    tf = F.fn(tgt)
                    for cc in tf.calls():
                        for nm in (cc.resolved, cc.static):
                            if nm and any(p.match(nm) for p in SINKS):
                                path = F.reach_path(r, [tgt]) or [r, tgt]
                                hits.append((c, ([r] if r == tgt else path) + [nm]))
                                break
        return hits

    def check_arm(sw, variant, lbl):
        (bb, adt, pl, mm, other) = sw
        if variant not in mm:
            return None
        region = q.arm_region(list(mm.values()) + [other], mm[variant], stop={bb})
        calls = [c for c in q.normal_calls() if c.bb in region]
        # closures created in the region
        for i in region:
            for st in q.stmts(i):
                rv = st["r"]
                if rv.get("k") == "agg" and rv.get("ak") in ("closure", "coroutine") and rv["def"] in F.bodies:
                    calls += F.fn(rv["def"]).normal_calls()
        return sink_hits(calls)

    # positive control (vacuity guard): the Insert arm, which a viewer is NOT permitted, must reach the persist layer
    ctl = check_arm(big_st, "Insert", "Insert")
    if not ctl:
        raise CheckError("positive control failed: no durable-state sink found from the Insert arm of QueryJob::execute (sink analysis is blind)")
    ctl2 = check_arm(big_mc, "RuleDrop", ".RuleDrop")
    if not ctl2:
        raise CheckError("positive control failed: no durable-state sink found from the .RuleDrop arm (sink analysis is blind)")
    ctx.extra["positive_controls"] = {"Insert": len(ctl), ".RuleDrop": len(ctl2)}
    viewer_ok = [kd for kd in kinds if K[("Viewer", label(kd))] == "ok"]
    for kd in viewer_ok:
        l = label(kd)
        hits = check_arm(big_st, kd[1], l) if kd[2] is None else check_arm(big_mc, kd[2], l)
        if hits is None:
            ctx.site("viewer-permitted %s: no executor arm in QueryJob::execute (handled before it or a no-op)" % l, q.where(), ok=True)
            continue
        # triaged, reasoned exemptions: exact sink path prefixes that are not viewer-reachable state changes
        real = []
        for (c, path) in hits:
            ex = exemption(l, path)
            if ex:
                ctx.exempt("%s -> %s" % (l, " -> ".join(path[-3:])), ex)
            else:
                real.append((c, path))
        ctx.site("viewer-permitted %s" % l, q.where(), ok=not real, sink_paths=len(hits), exempted=len(hits) - len(real))
        for (c, path) in real[:3]:
            ctx.violation("auth:R-C28-2:%s:%s" % (l, path[-1].split("::")[-1]), "a KG viewer is permitted `%s`, whose executor arm can reach the durable-state sink %s" % (l, " -> ".join(path)), c.where())
    ctx.end_rule()


def exemption(label, path):
    """one named call-graph edge with a reason each; nothing wider"""
    for a, b in zip(path, path[1:]):
        if a == "storage_engine::StorageEngine::ensure_knowledge_graph" and b == "storage_engine::StorageEngine::create_knowledge_graph":
            return ("edge ensure_knowledge_graph -> create_knowledge_graph: taken only when the named graph does not exist and the server is configured with "
                    "auto_create_knowledge_graphs; it creates an empty graph (no facts, rules or schemas change), and a non-admin reaches it only for a graph on which "
                    "the per-statement authorization found an ACL role (R-AUTH-6 denies callers without a role on the target graph)")
    return None
