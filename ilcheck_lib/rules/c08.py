"""C08 - row limits only truncate the true answer (limit-placement and bound clauses)."""
import re
from ..core import CheckError, op_local, proj
from . import common, dur

CG = "code_generator::CodeGenerator"
SET = CG + "::set_max_result_rows"
_EXEC = re.compile(r"^code_generator::CodeGenerator::execute(_recursive|_with_config|_parallel)?$")


def controlling_switches(f, bb):
    """switch blocks one of whose successors dominates bb while another successor does not reach... (bb is conditional on them)"""
    out = []
    for i in sorted(f.live_blocks()):
        t = f.term(i)
        if t.get("k") != "switch":
            continue
        succ = f.succ(i)
        dom = [s for s in succ if f.dominates(s, bb)]
        if dom and len(dom) < len(set(succ)):
            out.append((i, dom[0]))
    return out


def run(F, ctx):
    ctx.explanation = (
        "Decides where the configured row limit can take effect: (a) every call site of CodeGenerator::set_max_result_rows is enumerated; a site inside a loop that executes "
        "one code generator per IR node and feeds each node's result into the inputs of later nodes (the per-rule execution chain) must be guarded by a test that this node "
        "is the final one of the execution order, so that intermediate relations are never truncated (a truncated relation under negation / aggregation yields tuples outside "
        "the true answer); a site outside any loop limits a single execution; functions with an unguarded site are not called from a chaining loop; (b) inside the code "
        "generator every result-collecting closure that reads the limit appends only on the `limit == 0 || len < limit` side, so at most N rows are returned. "
        "Not decided: that exactly min(N,|A|) rows arrive (depends on the dataflow's output), which rows are kept."
    )
    sites = F.call_sites_of(SET)
    if not sites:
        raise CheckError("no call site of CodeGenerator::set_max_result_rows (anchor moved)")
    ctx.rule("R-C08-a", "the row limit reaches only the final node of a chained per-rule execution", floor=2)
    for c in sites:
        f = c.fn
        if f.file.startswith("src/code_generator"):
            continue
        loops = dur.loop_blocks(f)
        execs = [x for x in f.normal_calls() if _EXEC.match(x.resolved or "")]
        if c.bb not in loops:
            # single execution: the function must not itself be driven from a chaining loop
            bad = []
            for caller in F.callers(f.name):
                g = F.fn(caller)
                gl = dur.loop_blocks(g)
                for x in g.normal_calls():
                    if x.resolved == f.name and x.bb in gl:
                        bad.append(x)
            ok = not bad
            ctx.site("%s: limit set once for a single plan execution" % f.name, c.where(), ok=ok)
            if not ok:
                ctx.violation("%s:R-C08-a:limited-execution-called-in-loop" % f.name, "%s applies the row limit to the plan it executes and is called in a loop by %s: every intermediate result is truncated" % (f.name, bad[0].fn.name), bad[0].where())
            continue
        # inside a loop: is it a chaining loop?  (a result of execute flows into something that flows back into a code generator's inputs)
        chain = False
        stored = set()
        for y in f.normal_calls():
            if y.bb in loops and re.search(r"HashMap::<std::string::String, std::vec::Vec<value::Tuple>>::insert$", y.static_args or ""):
                stored |= {l for l in common.origins(f, op_local(y.args[0])) if "HashMap" in f.ty(l)}
        sd = f.derive(stored, through_calls=True) if stored else set()
        for y in f.normal_calls():
            if y.bb in loops and re.search(r"load_inputs_into_codegen|CodeGenerator::add_input|CodeGenerator::set_shared_input", y.resolved or ""):
                # a map that is filled with a node's result is loaded into the next node's code generator
                if any(op_local(a) in sd for a in y.args[1:]):
                    chain = True
        if not chain:
            ctx.site("%s: limit set per iteration of a non-chaining loop" % f.name, c.where(), ok=True)
            continue
        # guard: a branch that decides whether the call runs, whose condition derives from `last()` / `len()` of the iterated order
        finals = [x for x in f.normal_calls() if re.search(r"<impl \[.*\]>::(last|len)$|Vec::<.*>::len$|Peekable<.*>::peek", x.static_args or "")]
        fd = set()
        for x in finals:
            fd |= f.derive({x.dst["l"]}, through_calls=True)
        guarded = False
        for (sw, tgt) in controlling_switches(f, c.bb):
            if sw not in loops:
                continue
            disc = f.term(sw).get("on")
            dl = op_local(disc) if disc else None
            if dl is not None and dl in fd:
                guarded = True
        ctx.site("%s: limit in the per-rule execution chain is guarded by a final-node test" % f.name, c.where(), ok=guarded, final_node_sources=len(finals))
        if not guarded:
            ctx.violation("%s:R-C08-a:limit-on-every-chained-node" % f.name, "%s gives the row limit to the code generator of every node of the execution order, and each node's (truncated) result is loaded as an input of later nodes: `a(X) <- n(X)  b(X) <- n(X), !a(X)` with limit 1 returns a tuple of b although b is empty" % f.name, c.where())
    ctx.end_rule()

    # ---- b: bound
    ctx.rule("R-C08-b", "result-collecting closures append only on the `limit == 0 || len < limit` side", floor=4)
    n = 0
    for name in sorted(F.bodies):
        if not name.startswith(CG + "::") or "{closure" not in name:
            continue
        if "result_limit" not in F.raw_line(name):
            continue
        g = F.fn(name)
        lim = None
        for k, v in g.b["names"].items():
            if k == "result_limit":
                lim = v
        if lim is None:
            continue
        pushes = [c for c in g.normal_calls() if re.search(r"Vec::<value::Tuple>::push$|Vec::<\(value::Tuple, .*\)>::push$", c.static_args or "")]
        if not pushes:
            continue
        # locals holding the limit value
        lim_locals = set()
        for i in range(g.n):
            for st in g.stmts(i):
                rv = st["r"]
                if rv.get("k") == "use":
                    o = rv["o"]
                    pl = o.get("c") or o.get("m")
                    if pl and pl.get("l") == lim.get("l") and pl.get("p") == lim.get("p"):
                        lim_locals.add(st["d"]["l"])
        lim_d = g.derive(lim_locals, through_calls=False) if lim_locals else set()
        # edges on which `limit == 0` or `len < limit` is known to hold
        ok_edges = set()
        for i in sorted(g.live_blocks()):
            t = g.term(i)
            if t.get("k") != "switch":
                continue
            dl = op_local(t.get("on"))
            tg = t.get("tg") or []
            if dl is None or len(tg) != 1 or tg[0][0] != "0":
                continue
            false_t, true_t = tg[0][1], t.get("else")
            srcs = common.origins(g, dl) | {dl}
            defs = [st for j in range(g.n) for st in g.stmts(j) if st["d"]["l"] in srcs and not proj(st["d"]) and st["r"].get("k") == "bin"]
            for st in defs:
                rv = st["r"]
                a_, b_ = op_local(rv["a"]), op_local(rv["b"])
                ca, cb = rv["a"].get("v") if a_ is None else None, rv["b"].get("v") if b_ is None else None
                op = rv["op"]
                if op in ("Eq", "Ne") and ((a_ in lim_d and cb == "0") or (b_ in lim_d and ca == "0")):
                    ok_edges.add((i, true_t if op == "Eq" else false_t))
                elif op in ("Lt", "Gt", "Le", "Ge") and a_ is not None and b_ is not None and (a_ in lim_d) != (b_ in lim_d):
                    # normalise to  len OP' limit
                    if a_ in lim_d:
                        op = {"Lt": "Gt", "Gt": "Lt", "Le": "Ge", "Ge": "Le"}[op]
                    if op == "Lt":
                        ok_edges.add((i, true_t))
                    elif op == "Ge":
                        ok_edges.add((i, false_t))
        for p in pushes:
            n += 1
            # the append must be unreachable once those edges are removed
            seen, todo = {0}, [0]
            while todo:
                x = todo.pop()
                for y in g.succ(x):
                    if (x, y) in ok_edges or y in seen:
                        continue
                    seen.add(y)
                    todo.append(y)
            ok = bool(ok_edges) and p.bb not in seen
            ctx.site("%s: append guarded by len < limit" % name, p.where(), ok=ok)
            if not ok:
                ctx.violation("%s:R-C08-b:unbounded-append" % name, "a result-collecting closure that knows the row limit appends without the `len < limit` test: more than N rows can be returned", p.where())
    if n == 0:
        raise CheckError("no limit-aware result-collecting closure found in the code generator")
    ctx.end_rule()
