"""C17 - knowledge graphs are isolated and drops are final."""
import re
from ..core import CheckError, op_local, op_place, syn_walk
from . import common, dur

SE = "storage_engine::StorageEngine"
_CONTAINS = re.compile(r"^std::collections::HashSet::<std::string::String>::contains")
_DM = re.compile(r"^dashmap::DashMap::<.*>::(get|get_mut|contains_key|remove|entry|insert|remove_if)(::<.*>)?$")


def persist_calls(f):
    return [c for c in f.normal_calls() if (c.static or "").startswith("storage::persist::PersistBackend::")]


def run(F, ctx):
    ctx.explanation = (
        "Decides: (a) both write entry points test the drop tombstone AND the knowledge graph's existence while holding the dropping_kgs guard, before "
        "any persist call, and the failing edge of each test cannot reach a persist call; all persist calls of the entry point lie inside that guard's region; "
        "(b) drop ordering: tombstone inserted before the map removal before the metadata save; shard deletion and directory removal never after the tombstone "
        "is lifted; create tests the tombstone before claiming the map entry; (c) every StorageEngine method that takes a knowledge-graph name looks the graph up "
        "with that parameter only and builds shard names from it only. Not decided: crash points inside a drop."
    )
    # ---- a
    ctx.rule("R-C17-a", "tombstone + existence tests under the drop guard, before any persist call; failing edges cannot reach persist", floor=6)
    for nm in (SE + "::insert_tuples_into", SE + "::delete_tuples_from"):
        f = F.fn(nm)
        short = nm.split("::")[-1]
        acq = [(c, fld, md) for (c, fld, md) in common.lock_acquisitions(f, "dropping_kgs")]
        if not acq:
            ctx.site("%s takes dropping_kgs guard" % short, f.where(), ok=False)
            ctx.violation("%s:R-C17-a:no-drop-guard" % nm, "%s no longer holds the dropping_kgs guard around its persist calls" % short, f.where())
            continue
        pcs = persist_calls(f)
        if not pcs:
            raise CheckError("%s: no persist calls found" % nm)
        best = None
        for (c, fld, md) in acq:
            reg, drops = common.guard_region(f, c)
            if all(common.call_in_region(f, p, reg, drops) for p in pcs):
                best = (c, reg, drops)
        ctx.site("%s: all %d persist calls inside the guard region" % (short, len(pcs)), f.where(), ok=best is not None)
        if best is None:
            ctx.violation("%s:R-C17-a:persist-outside-guard" % nm, "%s performs a persist call outside the dropping_kgs guard: a concurrent drop can delete the shards in between and the late append re-creates the dropped graph's data" % short, pcs[0].where())
            continue
        (gc, reg, drops) = best
        first_p = min(pcs, key=lambda c: (0 if all(f.dominates(c.bb, o.bb) for o in pcs) else 1, c.bb))
        sinks = {p.bb for p in pcs}

        def test(kind, cands, bad_is_true):
            ok = False
            for t in cands:
                if not common.call_in_region(f, t, reg, drops):
                    continue
                if not all(f.dominates(t.bb, p.bb) for p in pcs):
                    continue
                br = common.branch_on_result(f, t)
                if br is None:
                    continue
                (sw, false_t, true_t) = br
                bad = true_t if bad_is_true else false_t
                if not (f.reachable_from([bad]) & sinks):
                    ok = True
            return ok

        tomb = [c for c in f.normal_calls() if _CONTAINS.match(c.static_args or "")]
        ok_t = test("tombstone", tomb, True)
        ctx.site("%s: tombstone test under guard, before persist" % short, gc.where(), ok=ok_t)
        if not ok_t:
            ctx.violation("%s:R-C17-a:tombstone-test" % nm, "%s does not test the drop tombstone under the guard before persisting (or the `being dropped` edge still reaches a persist call)" % short, gc.where())
        ex = [c for c in common.calls_on_field(f, "knowledge_graphs") if re.search(r"DashMap::<.*>::contains_key", c.static_args or "")]
        ok_e = test("exists", ex, False)
        ctx.site("%s: existence test under guard, before persist" % short, gc.where(), ok=ok_e)
        if not ok_e:
            ctx.violation("%s:R-C17-a:existence-test" % nm, "%s does not re-check that the knowledge graph exists while holding the drop guard before persisting: a write to a dropped (or never created) graph persists shards `<kg>:<relation>`, and the graph reappears after a restart" % short, gc.where())
    ctx.end_rule()

    # ---- b
    ctx.rule("R-C17-b", "drop ordering: tombstone ≺ map removal ≺ metadata save; cleanup never after the tombstone is lifted; create tests the tombstone first", floor=3)
    p = F.fn(SE + "::prepare_drop_knowledge_graph")
    ins = [c for c in p.normal_calls() if re.match(r"^std::collections::HashSet::<std::string::String>::insert$", c.static_args or "")]
    rem = [c for c in common.calls_on_field(p, "knowledge_graphs") if re.search(r"DashMap::<.*>::remove", c.static_args or "")]
    sav = [c for c in p.normal_calls() if c.resolved == SE + "::save_knowledge_graphs_metadata"]
    ok = dur.ordered_dom(p, ins, rem) and dur.ordered_dom(p, rem, sav)
    ctx.site("prepare_drop order", p.where(), ok=ok)
    if not ok:
        ctx.violation(SE + "::prepare_drop_knowledge_graph:R-C17-b:order", "prepare_drop no longer inserts the tombstone before removing the graph from the map before saving the metadata", p.where())
    fd = F.fn(SE + "::finish_drop_knowledge_graph")
    lift = [c for c in fd.normal_calls() if re.match(r"^std::collections::HashSet::<std::string::String>::remove", c.static_args or "")]
    cleanup = [c for c in fd.normal_calls() if (c.static or "").endswith("PersistBackend::delete_shard") or re.match(r"^std::fs::remove_dir_all", c.static or "")]
    ok = bool(lift) and len(cleanup) >= 2 and dur.never_after(fd, cleanup, lift)
    ctx.site("finish_drop: shard deletion and directory removal before the tombstone is lifted", fd.where(), ok=ok, cleanup_calls=len(cleanup))
    if not ok:
        ctx.violation(SE + "::finish_drop_knowledge_graph:R-C17-b:tombstone-lifted-early", "finish_drop lifts the tombstone before all shard/directory cleanup is done (or skips a cleanup step): a re-created graph of the same name can see the old data", fd.where())
    cr = F.fn(SE + "::create_knowledge_graph")
    tt = [c for c in cr.normal_calls() if _CONTAINS.match(c.static_args or "")]
    en = [c for c in common.calls_on_field(cr, "knowledge_graphs") if re.search(r"DashMap::<.*>::entry", c.static_args or "")]
    ok = dur.ordered_dom(cr, tt, en)
    if ok:
        br = common.branch_on_result(cr, tt[0])
        ok = br is not None and not (cr.reachable_from([br[2]]) & {c.bb for c in en})
    ctx.site("create tests the tombstone before claiming the entry", cr.where(), ok=ok)
    if not ok:
        ctx.violation(SE + "::create_knowledge_graph:R-C17-b:create-during-drop", "create_knowledge_graph can claim the map entry for a name whose drop is still in progress", cr.where())
    ctx.end_rule()

    # ---- c
    ctx.rule("R-C17-c", "knowledge-graph-keyed access: lookups and shard names use only the method's own kg parameter", floor=30)
    n_fns = 0
    for n in sorted(F.bodies):
        if not n.startswith(SE + "::") or "{closure" in n:
            continue
        f = F.fn(n)
        kg_l = None
        for nm_ in ("kg", "kg_name", "name"):
            l = f.local_named(nm_)
            if l is not None and 1 <= l <= f.b["argc"] and "str" in f.ty(l):
                kg_l = l
                break
        if kg_l is None:
            continue
        d = f.derive({kg_l}, through_calls=True)
        lookups = [c for c in common.calls_on_field(f, "knowledge_graphs") if _DM.match(c.static_args or "") and len(c.args) > 1]
        shard_calls = [c for c in persist_calls(f) if len(c.args) > 1 and "str" in f.ty(op_local(c.args[1]) or 0)]
        if not lookups and not shard_calls:
            continue
        n_fns += 1
        bad = [c for c in lookups if op_local(c.args[1]) not in d]
        # second accepted idiom: shard names enumerated from list_shards() and filtered by starts_with("<kg>:")
        listed = set()
        for c in f.normal_calls():
            if (c.static or "").endswith("PersistBackend::list_shards"):
                listed |= f.derive({c.dst["l"]}, through_calls=True)
        guards = []
        for c in f.normal_calls():
            if re.search(r"str>?::starts_with", c.static_args or "") or (c.static or "").endswith("str::starts_with") or "::starts_with" in (c.static or ""):
                if len(c.args) > 1 and op_local(c.args[1]) in d:
                    br = common.branch_on_result(f, c)
                    if br:
                        guards.append(br[2])
        for c in shard_calls:
            l = op_local(c.args[1])
            if l in d:
                continue
            if l in listed and any(f.dominates(g, c.bb) for g in guards):
                continue
            bad.append(c)
        ctx.site("%s" % n.split("::")[-1], f.where(), ok=not bad, lookups=len(lookups), shard_calls=len(shard_calls))
        for c in bad:
            ctx.violation("%s:R-C17-c:foreign-key:%s" % (n, (c.static or "").split("::")[-1]), "%s accesses a knowledge graph / shard with a key that does not derive from its own `%s` parameter: an operation on one graph can touch another" % (n.split("::")[-1], f.name_of(kg_l)), c.where())
    ctx.extra["kg_keyed_methods"] = n_fns
    ctx.end_rule()

    # ---- d: one metadata file per shard
    ctx.rule("R-C17-d", "the metadata file of a shard is never the file of another shard: where the name mapping is not injective, the path is resolved against the shard name recorded in the existing file", floor=2)
    FPn = "storage::persist::FilePersist"
    # is the name mapping injective?  (a character class mapped onto a character that is itself passed through)
    san = F.syn_fn("sanitize_name", file="src/storage/persist/mod.rs")
    lits = [n_["v"] for n_ in syn_walk(san["body"]) if n_.get("e") == "lit" and n_.get("t") in ("char", "str")]
    collapsing = len([l for l in lits if len(l) == 1]) >= 2 and any(m_.get("m") == "replace" for m_ in syn_walk(san["body"]) if m_.get("e") == "mcall")
    users = []
    for nm in (FPn + "::save_shard_meta", "<" + FPn + " as storage::persist::PersistBackend>::delete_shard"):
        if nm not in F.bodies:
            cands = [x for x in F.bodies if x.endswith("::delete_shard") and "FilePersist" in x and "{closure" not in x]
            nm = cands[0] if cands else nm
        users.append(F.fn(nm))
    for u in users:
        # the path that is renamed onto / removed
        sinks = [c for c in u.normal_calls() if re.search(r"^std::fs::(rename|remove_file)", c.static or "")]
        direct = [c for c in u.normal_calls() if (c.resolved or "").endswith("persist::sanitize_name")]
        resolvers = [c for c in u.normal_calls() if (c.resolved or "") in F.bodies and (c.resolved or "").startswith(FPn + "::") and "PathBuf" in u.ty(c.dst["l"])]
        checked = False
        for c in resolvers:
            g = F.fn(c.resolved)
            reads_name = any(a2.endswith("ShardMeta") and fld == "name" for n2 in F.with_closures(c.resolved) for (b2, kind, a2, fld, line, pl2) in F.fn(n2).field_accesses())
            cmp_name = any(re.search(r"<(std::string::String|str) as std::cmp::PartialEq<.*>>::(eq|ne)$", x.static_args or "") for n2 in F.with_closures(c.resolved) for x in F.fn(n2).normal_calls())
            if reads_name and cmp_name:
                checked = True
        ok = (not collapsing) or (checked and not direct)
        ctx.site("%s: metadata path resolved against the recorded shard name" % u.name.split("::")[-1], u.where(), ok=ok, mapping_collapses_characters=collapsing, uses_sanitize_name_directly=bool(direct), resolvers=len(resolvers))
        if not ok:
            ctx.violation("%s:R-C17-d:metadata-file-shared-by-two-shards" % u.name, "%s derives the metadata file name from sanitize_name alone, which maps ':' and '/' to '_' and leaves '_' as it is: shards `a_b:c` and `a:b_c` (graph a_b / relation c, graph a / relation b_c) share `a_b_c.json`; the later save overwrites the earlier shard's metadata and that graph's relation is empty after a restart" % u.name.split("::")[-1], u.where())
    ctx.end_rule()

    # ---- e: a dropped shard leaves nothing in the log
    ctx.rule("R-C17-e", "delete_shard removes the shard's WAL entries on every success path (also entries still in the writer's buffer)", floor=1)
    ds = [x for x in F.bodies if x.endswith("::delete_shard") and "FilePersist" in x and "{closure" not in x]
    if not ds:
        raise CheckError("FilePersist::delete_shard not found")
    fd = F.fn(ds[0])
    rse = [c for c in fd.normal_calls() if (c.resolved or "").endswith("PersistWal::remove_shard_entries")]
    ok, wit = dur.must_pass(fd, [c.bb for c in rse]) if rse else (False, None)
    ctx.site("delete_shard: every success path passes remove_shard_entries", fd.where(), ok=ok)
    if not ok:
        ctx.violation(ds[0] + ":R-C17-e:wal-entries-may-survive-the-drop", "delete_shard can return success without removing the shard's entries from the write-ahead log (e.g. when a look at the log *file* finds none - in batched durability mode they are still in the writer's buffer): they reach the file later, are replayed at the next start, and the dropped graph is back with its facts", fd.where(), detail="witness %s" % wit)
    ctx.end_rule()

    # ---- f: graph names that cannot work are refused
    ctx.rule("R-C17-f", "create_knowledge_graph refuses names that collide with the engine's own directories or contain the shard separator", floor=3)
    newf = F.syn_fn("new_with_workers", file="src/storage_engine/mod.rs", impl_self="StorageEngine") if any(x["name"] == "new_with_workers" and x.get("impl_self") == "StorageEngine" for x in F.syn["fns"]) else F.syn_fn("new", file="src/storage_engine/mod.rs", impl_self="StorageEngine")
    reserved = set()
    for fnrec in [x for x in F.syn["fns"] if x["file"] == "src/storage_engine/mod.rs" and x.get("impl_self") == "StorageEngine" and x["name"] in ("new", "new_with_workers", "with_config")]:
        for n_ in syn_walk(fnrec["body"]):
            if n_.get("e") == "mcall" and n_.get("m") == "join" and any(y.get("e") == "path" and y["p"].endswith("data_dir") or y.get("e") == "field" for y in syn_walk(n_["recv"])):
                for a in n_["args"]:
                    if a.get("e") == "lit" and a.get("t") == "str" and "data_dir" in str(n_["recv"]):
                        reserved.add(a["v"])
    if len(reserved) < 2:
        raise CheckError("engine directories under data_dir not found (got %s)" % sorted(reserved))
    ck = F.syn_fn("create_knowledge_graph", file="src/storage_engine/mod.rs", impl_self="StorageEngine")
    eq_lits, contains_lits = set(), set()
    for n_ in syn_walk(ck["body"]):
        if n_.get("e") == "bin" and n_.get("op") == "==":
            for side in (n_["l"], n_["r"]):
                if side.get("e") == "lit" and side.get("t") == "str":
                    eq_lits.add(side["v"])
        if n_.get("e") == "mcall" and n_.get("m") == "contains":
            for a in n_["args"]:
                if a.get("e") == "lit":
                    contains_lits.add(a["v"])
    for r_ in sorted(reserved):
        ok = r_ in eq_lits
        ctx.site("name `%s` (a directory of the engine under data_dir) is refused" % r_, "src/storage_engine/mod.rs:%s" % ck["line"], ok=ok)
        if not ok:
            ctx.violation(SE + "::create_knowledge_graph:R-C17-f:reserved-name-accepted:%s" % r_, "a knowledge graph may be named `%s`, the name of the engine's own directory under the data directory: its graph directory is that directory, and dropping the graph removes it - every other graph's shards, batches and log are gone after the drop" % r_, "src/storage_engine/mod.rs:%s" % ck["line"])
    ok = ":" in contains_lits
    ctx.site("names containing the shard separator ':' are refused", "src/storage_engine/mod.rs:%s" % ck["line"], ok=ok)
    if not ok:
        ctx.violation(SE + "::create_knowledge_graph:R-C17-f:separator-accepted", "a knowledge graph name may contain ':', the separator of shard names `<graph>:<relation>`: recovery splits at the first ':' and attributes the data of graph `a:b` to a graph `a` that nobody created, and dropping `a` deletes the shards of `a:b`", "src/storage_engine/mod.rs:%s" % ck["line"])
    ctx.end_rule()
