"""C34 - programs with recursion through negation are never evaluated."""
from ..core import CheckError, op_local, proj
import re
from . import common

PARSE = "IQLEngine::parse"
SWN = "recursion::stratify_with_negation"
STRAT = "recursion::stratify"
SR = "recursion::StratificationResult"
PARSE_PROGRAM = "parser::parse_program"
REGISTER = "rule_catalog::RuleCatalog::register_rule"
VRS = "rule_catalog::validate_rules_stratification"


def must_pass(f, through_bbs, extra_stop=()):
    """True iff every success path entry->return passes one of the blocks `through_bbs`.
    returns (ok, witness_path)"""
    rets, eb = f.success_returns()
    stop = set(eb) | set(through_bbs) | set(extra_stop)
    for r in rets:
        p = f.path(0, [r], stop=stop)
        if p is not None:
            return False, p
    return True, None


def run(F, ctx):
    ctx.explanation = (
        "Decides: (b) the one function that turns program text into the program the engine evaluates (IQLEngine::parse) passes, on every success path, "
        "a whole-program negation-aware stratification check whose NotStratifiable outcome can only reach an error return - the program it checks is the "
        "complete text handed to the engine (persistent prefix + session rules + query); (a) the engine's program is written only by parse or by "
        "rewrites of the already-validated program, and program text is parsed for evaluation only by parse; (c) the check rejects only on a negative "
        "edge inside an SCC, so stratified sets are accepted; (d) persistent registration passes the same whole-set check. "
        "Not decided: correctness of the SCC computation itself."
    )
    f = F.fn(PARSE)
    # ---- b
    ctx.rule("R-C34-b", "IQLEngine::parse: every success path passes stratify_with_negation on the parsed program; NotStratifiable reaches only error returns", floor=2)
    pp = f.calls_to(PARSE_PROGRAM)
    if not pp:
        raise CheckError("IQLEngine::parse no longer calls parser::parse_program")
    chk = f.calls_to(SWN)
    prog_locals = set()
    for c in pp:
        prog_locals |= f.derive({c.dst["l"]}, through_calls=False)
    # `?` on parse_program goes through Try::branch (a call): follow it
    for c in pp:
        prog_locals |= f.derive({c.dst["l"]}, through_calls=True, stop_calls=[SWN, STRAT, "recursion::has_recursion"])
    good = [c for c in chk if op_local(c.args[0]) in prog_locals]
    ok, wit = must_pass(f, [c.bb for c in good]) if good else (False, None)
    ctx.site("stratification check on every success path of parse", f.where(), ok=ok, checks=len(good))
    if not ok:
        ctx.violation("%s:R-C34-b:check-not-on-every-path" % PARSE, "a success path of IQLEngine::parse does not pass a whole-program stratify_with_negation check: an unstratifiable rule set (e.g. session rules a(X) <- n(X), !b(X). b(X) <- n(X), !a(X).) is evaluated", f.where(),
                      detail="witness blocks: %s" % wit)
    # the NotStratifiable arm of the check's result
    rets, eb = f.success_returns()
    for c in good:
        res = f.derive({c.dst["l"]}, through_calls=False)
        sws = [s for s in f.enum_switches(SR) if s[2]["l"] in res and "NotStratifiable" in s[3] and f.dominates(c.bb, s[0])]
        if not sws:
            ctx.site("NotStratifiable arm", c.where(), ok=False)
            ctx.violation("%s:R-C34-b:result-not-inspected" % PARSE, "the result of stratify_with_negation is not matched for NotStratifiable in parse", c.where())
            continue
        # the first switch dominated by the call decides
        sw = sorted(sws, key=lambda s: s[0])[0]
        bad_t = sw[3]["NotStratifiable"]
        reach = f.reachable_from([bad_t], stop=eb)
        leak = [r for r in rets if r in reach]
        ctx.site("NotStratifiable arm leads only to error returns", f.where(bad_t), ok=not leak)
        if leak:
            ctx.violation("%s:R-C34-b:notstratifiable-swallowed" % PARSE, "the NotStratifiable outcome of the stratification check can reach a normal return of parse: the unstratifiable program is evaluated anyway", f.where(bad_t))
    ctx.end_rule()

    # ---- a
    ctx.rule("R-C34-a", "the engine's program is set only by parse or by rewrites of the validated program; evaluation parses text only in parse", floor=3)
    writers = {}
    for n in F.bodies:
        if not n.startswith("IQLEngine::"):
            continue
        if '"program"' not in F.raw_line(n):
            continue
        g = F.fn(n)
        w = r = False
        for (bb, kind, adt, field, line, pl) in g.field_accesses():
            if adt == "IQLEngine" and field == "program":
                if kind in ("w",):
                    w = True
                elif kind.startswith("r"):
                    r = True
        if w:
            writers[n] = r
    if PARSE not in writers:
        raise CheckError("IQLEngine::parse does not write IQLEngine.program (anchor moved)")
    for n, reads in sorted(writers.items()):
        g = F.fn(n)
        ok = (n == PARSE) or reads
        # a rewrite must not parse fresh text
        if n != PARSE and g.calls_to(PARSE_PROGRAM):
            ok = False
        ctx.site("writer of IQLEngine.program: %s" % n, g.where(), ok=ok, rewrites_existing=reads)
        if not ok:
            ctx.violation("%s:R-C34-a:unvalidated-program-writer" % n, "%s installs a program into the engine that does not derive from the program validated by parse" % n, g.where())
    allowed_parsers = {PARSE, "protocol::handler::extract_column_names_from_query", "protocol::handler::find_query_source_relation",
                       "protocol::rest::handlers::ws::handle_ws_add_rule::{closure#0}", "protocol::rest::handlers::ws::handle_ws_add_rule"}
    for c in F.call_sites_of(PARSE_PROGRAM):
        n = c.fn.name
        ok = n in allowed_parsers or not n.startswith("IQLEngine::")
        ctx.site("parse_program call in %s" % n, c.where(), ok=ok)
        if not ok:
            ctx.violation("%s:R-C34-a:second-parser" % n, "%s parses program text inside the engine without going through IQLEngine::parse (and its stratification check)" % n, c.where())
    ctx.end_rule()

    # ---- c accept side
    ctx.rule("R-C34-c", "stratify_with_negation / validate_rules_stratification reject only on a negative edge inside an SCC", floor=2)
    for nm in (SWN, VRS):
        g = F.fn(nm)
        neg = [c for c in g.normal_calls() if (c.resolved or "").endswith("has_negative_edge_in_scc")]
        if not neg:
            raise CheckError("%s no longer calls has_negative_edge_in_scc" % nm)
        some_targets = []
        for c in neg:
            res = g.derive({c.dst["l"]}, through_calls=False)
            for s in g.enum_switches("std::option::Option"):
                if s[2]["l"] in res and "Some" in s[3]:
                    some_targets.append(s[3]["Some"])
        rej = []
        for i in range(g.n):
            if g.is_cleanup(i):
                continue
            for st in g.stmts(i):
                rv = st["r"]
                if rv.get("k") == "agg" and ((rv.get("adt") == SR and rv.get("var") == "NotStratifiable") or (nm == VRS and rv.get("adt") == "std::result::Result" and rv.get("var") == "Err")):
                    rej.append(i)
        ok = bool(some_targets) and all(any(g.dominates(t, b) for t in some_targets) for b in rej) and bool(rej)
        ctx.site("%s rejects only under has_negative_edge_in_scc == Some" % nm, g.where(), ok=ok, reject_sites=len(rej))
        if not ok:
            ctx.violation("%s:R-C34-c:rejects-elsewhere" % nm, "%s has a rejecting exit that is not guarded by a negative edge inside an SCC: safe stratified rule sets can be rejected (or nothing is rejected)" % nm, g.where())
    ctx.end_rule()

    # ---- d persistent registration
    rule_graph_construction(F, ctx)

    ctx.rule("R-C34-d", "RuleCatalog::register_rule passes the whole-set stratification check on every success path", floor=1)
    g = F.fn(REGISTER)
    cs = g.calls_to(VRS)
    ok, wit = must_pass(g, [c.bb for c in cs]) if cs else (False, None)
    ctx.site("register_rule", g.where(), ok=ok, checks=len(cs))
    if not ok:
        ctx.violation("%s:R-C34-d:registration-unchecked" % REGISTER, "a success path of RuleCatalog::register_rule does not validate stratification of the resulting rule set", g.where(), detail="witness blocks: %s" % wit)
    ctx.end_rule()


def rule_graph_construction(F, ctx):
    """R-C34-e: the negation-aware dependency graph records every body literal with its sign"""
    from ..core import op_const, place_fields
    ctx.rule("R-C34-e", "dependency graph construction is sign-preserving: Negated -> Negative edge, Positive -> Positive edge; add_edge records every edge (no sign-blind de-duplication)", floor=3)
    b = F.fn("recursion::build_extended_dependency_graph")
    sws = [s for s in b.enum_switches("ast::BodyPredicate") if "Negated" in s[3] and "Positive" in s[3]]
    if not sws:
        raise CheckError("build_extended_dependency_graph: no dispatch over BodyPredicate")
    (bb, adt, pl, mm, other) = sws[0]
    loops_stop = {bb}
    for variant, want in (("Negated", "Negative"), ("Positive", "Positive")):
        region = b.arm_region(list(mm.values()) + [other], mm[variant], stop=loops_stop)
        adds = [c for c in b.normal_calls() if c.bb in region and c.resolved == "recursion::DependencyGraph::add_edge"]
        ok = bool(adds)
        for c in adds:
            txt = (c.args[3].get("t") or "") if len(c.args) > 3 else ""
            l = op_local(c.args[3]) if len(c.args) > 3 else None
            if l is not None:
                for o in common.origins(b, l):
                    for i in range(b.n):
                        for st in b.stmts(i):
                            rv = st["r"]
                            if st["d"]["l"] == o and rv.get("k") == "agg" and rv.get("adt") == "recursion::DependencyType":
                                txt += " " + rv.get("var", "")
            ok = ok and (want in txt) and not any(w in txt for w in ("Negative", "Positive") if w != want)
        ctx.site("BodyPredicate::%s -> add_edge(.., DependencyType::%s)" % (variant, want), b.where(mm[variant]), ok=ok, calls=len(adds))
        if not ok:
            ctx.violation("recursion::build_extended_dependency_graph:R-C34-e:%s-edge" % variant.lower(), "a %s body atom is not recorded as a %s dependency edge: recursion through negation is not seen by the stratification check" % (variant.lower(), want), b.where(mm[variant]))
    a = F.fn("recursion::DependencyGraph::add_edge")
    dep = a.need_local("dep_type")
    to_l = a.need_local("to")
    pushes = [c for c in a.normal_calls() if re.search(r"Vec::<\(std::string::String, recursion::DependencyType\)>::push$", c.static_args or "")]
    ok = bool(pushes) and dep is not None
    if ok:
        okp, wit = must_pass(a, [c.bb for c in pushes])
        if not okp:
            # a guard is tolerated only if it looks at the sign as well (exact-duplicate elimination)
            sign_aware = False
            for c in a.normal_calls():
                br = common.branch_on_result(a, c)
                if not br:
                    continue
                if any(op_local(x) in a.derive({dep}, through_calls=False) for x in c.args):
                    sign_aware = True
                for x in c.args:
                    clo = x.get("clo")
                    for i in range(a.n):
                        for st in a.stmts(i):
                            rv = st["r"]
                            if rv.get("k") == "agg" and rv.get("ak") == "closure" and st["d"]["l"] in common.origins(a, op_local(x) or -1):
                                clo = rv["def"]
                    if clo and clo in F.bodies:
                        g = F.fn(clo)
                        if any(fld == "1" for (_b, _k, _a, fld, _l, _p) in g.field_accesses()):
                            sign_aware = True
            ok = sign_aware
    ctx.site("add_edge records (to, dep_type) on every path (or skips exact duplicates only)", a.where(), ok=ok, pushes=len(pushes))
    if not ok:
        ctx.violation("recursion::DependencyGraph::add_edge:R-C34-e:edge-dropped", "add_edge can skip recording an edge without looking at its sign: a negative edge to a relation that already has a positive edge (or vice versa) is lost, and a cycle through negation is accepted", a.where())
    ctx.end_rule()
