"""C10 - session state is isolated (ownership / layering clauses)."""
import re
from ..core import CheckError, op_local
from . import common, c20, c28

SM = "session::SessionManager"
SNAPSHOT = "storage_engine::snapshot::KnowledgeGraphSnapshot"
H = "protocol::handler::Handler"
_MAP = r"std::collections::HashMap::<std::string::String, session::Session>::"
_KEYED = re.compile("^" + re.escape(_MAP) + r"(get|get_mut|remove|contains_key|entry)(::<.*>)?$")
_INSERT = re.compile("^" + re.escape(_MAP) + r"insert$")
_WHOLE = re.compile("^" + re.escape(_MAP) + r"(values|values_mut|iter|iter_mut|retain|drain|keys|into_iter|into_values|extract_if)(::<.*>)?$")
# functions that walk all sessions, and what they may do there
WHOLE_MAP_OK = {
    "stats": "returns counts only",
    "reap_expired": "removes expired sessions; returns a count",
    "close_sessions_for_kg": "removes the sessions bound to a dropped graph; returns a count",
    "list_sessions": "returns ids only",
}
SESSION_DATA_ACCESSORS = {"session::Session::" + x for x in ("session_facts", "ephemeral_facts", "rules", "rule_texts")}


def run(F, ctx):
    ctx.explanation = (
        "Decides: (a) nothing reachable from the session manager or from the snapshot's session-aware executors can reach a durable-state sink, a mutator of served "
        "state or a snapshot publication - session facts and rules cannot become persistent; (b) every SessionManager method reaches a Session only through a keyed "
        "lookup with its own session-id parameter; the functions that walk all sessions are the enumerated ones and they hand out no session facts or rules; (c) the "
        "session-aware executors build a fresh map for the per-query engine (never the snapshot's shared map) and pass the caller's session facts only to that engine. "
        "Not decided: equality of a session answer with `persistent data + own facts and rules` (value-level)."
    )
    muts = set(c20.kg_mutators(F)) | {c20.PUB}

    def first_sink(entry):
        for r in F.reach([entry]):
            if r in muts:
                return r, F.reach_path(entry, [r])
            rf = F.fn(r)
            for c in rf.calls():
                for nm in (c.resolved, c.static):
                    if nm and any(p.match(nm) for p in c28.SINKS):
                        return nm, (F.reach_path(entry, [r]) or [entry, r]) + [nm]
        return None

    # ---- a
    ctx.rule("R-C10-a", "session manager and session-aware executors reach no durable-state sink / mutator / publication", floor=20)
    entries = [n for n in sorted(F.bodies) if n.startswith(SM + "::") and "{closure" not in n]
    entries += [n for n in sorted(F.bodies) if n.startswith(SNAPSHOT + "::execute_with_session_facts") and "{closure" not in n]
    for e in entries:
        bad = first_sink(e)
        ctx.site(e.replace("session::", ""), F.fn(e).where(), ok=bad is None)
        if bad:
            ctx.violation("%s:R-C10-a:session-reaches-writer:%s" % (e, bad[0].split("::")[-1]), "%s can reach %s: session state can leak into persistent state" % (e.split("::")[-1], " -> ".join(bad[1])), F.fn(e).where())
    ctx.end_rule()

    # ---- b
    ctx.rule("R-C10-b", "sessions are reached only by keyed lookup with the method's own session id; whole-map walks are the enumerated ones", floor=8)
    n_keyed = 0
    for n in sorted(F.bodies):
        if not n.startswith(SM + "::"):
            continue
        root = n.split("::{closure")[0]
        short = root.split("::")[-1]
        f = F.fn(n)
        rf = F.fn(root)
        idl = rf.local_named("id") if rf.local_named("id") is not None else rf.local_named("session_id")
        for c in f.normal_calls():
            sa = c.static_args or ""
            if _KEYED.match(sa):
                n_keyed += 1
                if idl is None:
                    raise CheckError("%s: keyed session lookup but no parameter named id / session_id (renamed? update the rule's anchor)" % root)
                ok = n == root and idl is not None and op_local(c.args[1]) in f.derive({idl}, through_calls=True)
                ctx.site("%s: keyed %s" % (short, sa.split("::")[-1][:20]), c.where(), ok=ok)
                if not ok:
                    ctx.violation("%s:R-C10-b:foreign-session-key" % root, "%s looks a session up with a key that is not its own session-id parameter: one session can read or change another session's state" % short, c.where())
            elif _INSERT.match(sa):
                ok = short == "create_session"
                ctx.site("%s: insert" % short, c.where(), ok=ok)
                if not ok:
                    ctx.violation("%s:R-C10-b:session-insert" % root, "%s inserts into the session map (only create_session may)" % short, c.where())
            elif _WHOLE.match(sa):
                ok = short in WHOLE_MAP_OK
                ctx.site("%s: walks all sessions (%s)" % (short, sa.split("::")[-1][:12]), c.where(), ok=ok)
                if not ok:
                    ctx.violation("%s:R-C10-b:walks-all-sessions" % root, "%s iterates over all sessions; only %s may, and they return counts/ids" % (short, sorted(WHOLE_MAP_OK)), c.where())
        if short in WHOLE_MAP_OK:
            leak = [c for c in f.normal_calls() if c.resolved in SESSION_DATA_ACCESSORS]
            for (bb, kind, adt, fld, line, pl) in f.field_accesses():
                if adt == "session::Session" and fld in ("ephemeral_facts", "ephemeral_rules", "ephemeral_rule_texts"):
                    leak.append(None)
            ctx.site("%s hands out no session facts/rules" % n.replace(SM + "::", ""), f.where(), ok=not leak)
            if leak:
                ctx.violation("%s:R-C10-b:whole-map-leak" % root, "%s walks all sessions and touches their facts or rules" % short, f.where())
    if n_keyed < 4:
        raise CheckError("only %d keyed session lookups found" % n_keyed)
    ctx.end_rule()

    # ---- c
    ctx.rule("R-C10-c", "session-aware executors hand the per-query engine a freshly built map containing the caller's session facts", floor=2)
    for n in sorted(F.bodies):
        if not n.startswith(SNAPSHOT + "::execute_with_session_facts") or "{closure" in n:
            continue
        f = F.fn(n)
        sf = f.need_local("session_facts")
        news = [c for c in f.normal_calls() if re.match(r"^std::sync::Arc::<std::collections::HashMap<std::string::String, std::vec::Vec<value::Tuple>>>::new$", c.static_args or "")]
        fresh = [c for c in f.normal_calls() if re.match(r"^std::collections::HashMap::<std::string::String, std::vec::Vec<value::Tuple>>::(new|with_capacity)$", c.static_args or "")]
        shared = [c for c in f.normal_calls() if (c.resolved or "").endswith("IQLEngine::set_shared_input")]
        ok = bool(news) and bool(fresh) and bool(shared) and sf is not None
        if ok:
            dfresh = set()
            for c in fresh:
                dfresh |= f.derive({c.dst["l"]}, through_calls=True)
            # the Arc handed to the engine wraps a local map (not self.input_tuples), and the session facts flow into it
            ok = all(op_local(c.args[0]) in dfresh for c in news)
            dnew = set()
            for c in news:
                dnew |= f.derive({c.dst["l"]}, through_calls=False)
            ok = ok and all(op_local(c.args[1]) in dnew for c in shared)
            ok = ok and any(op_local(c.args[0]) in f.derive({sf}, through_calls=True) for c in news)
            # no Arc::clone of the snapshot's own map reaches set_shared_input
            for c in shared:
                for o in common.origins(f, op_local(c.args[1])):
                    for (bb, kind, adt, fld, line, pl) in f.field_accesses():
                        pass
        ctx.site(n.split("::")[-1], f.where(), ok=ok)
        if not ok:
            ctx.violation("%s:R-C10-c:shared-map" % n, "%s does not give the per-query engine a freshly built map that contains the caller's session facts (session facts could land in the shared snapshot map, or be dropped)" % n.split("::")[-1], f.where())
    ctx.end_rule()

    # ---- d
    ctx.rule("R-C10-d", "what a session stores / retracts / adds is the caller's request: it does not depend on the persistent snapshot", floor=4)
    n_sites = 0
    for callee in (SM + "::insert_ephemeral", SM + "::retract_ephemeral", SM + "::add_ephemeral_rule"):
        for c in F.call_sites_of(callee):
            f = c.fn
            n_sites += 1
            loads = [x for x in f.normal_calls() if x.dst and "KnowledgeGraphSnapshot" in f.ty(x.dst["l"])]
            seeds = {x.dst["l"] for x in loads}
            # snapshots reached through a guard / Result wrapper
            for x in f.normal_calls():
                if x.dst and re.search(r"KnowledgeGraphSnapshot", f.ty(x.dst["l"])):
                    seeds.add(x.dst["l"])
            dep = f.derive(seeds, through_calls=True) if seeds else set()
            payload = [op_local(a) for a in c.args[2:] if op_local(a) is not None]
            bad = [l for l in payload if l in dep]
            ctx.site("%s <- %s" % (callee.split("::")[-1], f.name.split("::{closure")[0].split("::")[-1]), c.where(), ok=not bad, snapshot_loads=len(seeds))
            if bad:
                ctx.violation("%s:R-C10-d:%s-depends-on-persistent-state" % (f.name, callee.split("::")[-1]), "%s computes what it hands to SessionManager::%s from a persistent snapshot (e.g. drops tuples that are currently persistent): the session's own facts then depend on what other clients have stored - after the persistent copy is deleted the session has lost a fact it inserted" % (f.name.split("::{closure")[0].split("::")[-1], callee.split("::")[-1]), c.where())
    if n_sites < 4:
        raise CheckError("only %d session store/retract call sites found" % n_sites)
    ctx.end_rule()
