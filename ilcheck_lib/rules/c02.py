"""C02 - optimizer settings never change answers (join-planning clause: no join graph across Union branches)."""
import re
from ..core import CheckError, op_local, syn_walk, pat_paths, last_seg
from . import common

JP = "join_planning::JoinPlanner"
JG = "join_planning::JoinGraph"
IR = "ir::IRNode"


def union_verdict(F, name):
    """for a crate fn `name(ir) -> bool` whose body is a match over IRNode: the constant its Union arm returns (True/False), else None"""
    if name not in F.bodies:
        return None
    g = F.fn(name)
    if g.ty(0) != "bool":
        return None
    try:
        sf = F.syn_for(g)
    except CheckError:
        return None
    ms = [n for n in syn_walk(sf["body"]) if n.get("e") == "match"]
    if not ms:
        return None
    for arm in ms[0]["arms"]:
        ps, w = pat_paths(arm["pat"])
        if any(last_seg(p) == "Union" for p in ps):
            b = arm["body"]
            while b.get("e") == "block" and len(b.get("stmts", [])) == 1:
                b = b["stmts"][0]
            if b.get("e") == "lit" and b.get("t") == "bool":
                return b["v"] in ("true", True)
            return None
    return None


def run(F, ctx):
    ctx.explanation = (
        "Decides the one structural clause of switch-invariance that the join planner owns: the inputs of a Union are alternatives (the clauses of a multi-clause head), "
        "so join reordering must never build one join graph from the scans of several Union inputs - the rebuilt join tree would join the alternatives with each other and "
        "replace the Union. Rule: in JoinPlanner::plan_joins every construction of the join graph used for reordering (JoinGraph::from_ir) is dominated by the `no Union in "
        "this tree` side of a test whose decision table answers `true` for IRNode::Union, or else the scan collector does not descend into Union inputs (leaving such a tree unplanned, or planning each input by its own call, are both fine). "
        "The remappers used when the tree is rebuilt are decided under C05. "
        "Not decided: value-level equivalence of SIP rewriting, subplan sharing, boolean specialization and magic sets (a differential probe over 32 switch combinations "
        "found no other difference; it is not part of this check)."
    )
    ctx.rule("R-C02-a", "join reordering never builds one join graph across the inputs of a Union", floor=2)
    f = F.fn(JP + "::plan_joins")
    builds = [c for c in f.normal_calls() if c.resolved == JG + "::from_ir"]
    if not builds:
        raise CheckError("plan_joins no longer builds a JoinGraph (anchor moved)")
    # does the scan collector descend into Union inputs?
    ex = F.fn(JG + "::extract_scans_recursive")
    descends = False
    for (bb, adt, pl, mm, other) in ex.enum_switches(IR):
        if "Union" in mm:
            region = ex.arm_region(list(mm.values()) + ([other] if other is not None else []), mm["Union"])
            scope = set()
            for c in ex.normal_calls():
                if c.bb in region:
                    scope.add(c)
            # recursion may sit in a closure / loop inside the arm
            for c in scope:
                if c.resolved == ex.name:
                    descends = True
            for n in F.with_closures(ex.name):
                if n != ex.name and any(c.resolved == ex.name for c in F.fn(n).normal_calls()):
                    descends = True
    ctx.site("scan collector descends into Union inputs", ex.where(), ok=True, descends=descends)
    guards = []
    for c in f.normal_calls():
        r = c.resolved
        if r and r.startswith("join_planning::") and union_verdict(F, r) is True:
            br = common.branch_on_result(f, c)
            if br:
                guards.append((c, br[1], br[2]))
    for b in builds:
        ok = (not descends) or any(f.dominates(false_t, b.bb) and not f.dominates(true_t, b.bb) for (_c, false_t, true_t) in guards)
        ctx.site("JoinGraph::from_ir in plan_joins is reached only for Union-free trees", b.where(), ok=ok, union_guards=len(guards))
        if not ok:
            ctx.violation(JP + "::plan_joins:R-C02-a:join-graph-across-union", "plan_joins builds one join graph from every scan below the node, Union inputs included, and replaces the tree by the reordered join: for `p(X) <- a(X)` `p(X) <- b(X,Y), c(Y)` the planner joins a, b and c and the query returns nothing with join planning on, 5 rows with it off", b.where())
    # other users of the join graph must not produce plans
    for c in F.call_sites_of(JG + "::from_ir"):
        if c.fn.name == f.name:
            continue
        ok = "IRNode" not in c.fn.ty(0)
        ctx.site("other user of JoinGraph::from_ir: %s returns %s" % (c.fn.name, c.fn.ty(0)[:60]), c.where(), ok=ok)
        if not ok:
            ctx.violation("%s:R-C02-a:unguarded-join-graph-user" % c.fn.name, "%s builds a join graph from a whole tree (Union inputs included) and returns a plan" % c.fn.name, c.where())
    # the Union side: each input planned by its own call
    per_input = False
    for (c, false_t, true_t) in guards:
        for x in f.normal_calls():
            if x.bb in f.reachable_from([true_t]) and x.resolved and x.resolved in F.bodies and x.resolved != f.name:
                for n in F.with_closures(x.resolved):
                    g = F.fn(n)
                    if any(y.resolved == f.name for y in g.normal_calls()):
                        per_input = True
    if descends:
        # informational: leaving a tree with a Union unplanned is correct too (no reordering is always safe)
        ctx.site("trees with a Union: inputs are planned by separate plan_joins calls", f.where(), ok=True, planned_separately=per_input)
    ctx.end_rule()

    # ---- b: SIP sees the variables inside arithmetic operands
    ctx.rule("R-C02-b", "BodyPredicate::variables reports the variables of both operands of a comparison through Term::variables (arithmetic operands included)", floor=1)
    bv = F.fn("ast::BodyPredicate::variables")
    done = False
    for (bb, adt, pl, mm, other) in bv.enum_switches("ast::BodyPredicate"):
        if "Comparison" not in mm:
            continue
        done = True
        targets = list(mm.values()) + ([other] if other is not None else [])
        region = bv.arm_region(targets, mm["Comparison"], stop={bb})
        tv = [c for c in bv.normal_calls() if c.bb in region and c.resolved == "ast::Term::variables"]
        # which operand each call looks at: field 0 (left) / field 2 (right) of the Comparison variant
        seen = set()
        for c in tv:
            for o in common.origins(bv, op_local(c.args[0])) | {op_local(c.args[0])}:
                for i in range(bv.n):
                    for st in bv.stmts(i):
                        if st["d"]["l"] == o and st["r"].get("k") in ("ref", "use"):
                            plx = st["r"].get("p") or (st["r"].get("o") or {}).get("c") or (st["r"].get("o") or {}).get("m") or {}
                            for x in plx.get("p", []):
                                if isinstance(x, dict) and x.get("f") in ("0", "2") and x.get("a") == "ast::BodyPredicate":
                                    seen.add(x["f"])
        arith_switch = any("Arithmetic" in m2 for (b2, a2, p2, m2, o2) in bv.enum_switches("ast::Term") if b2 in region)
        ok = seen == {"0", "2"} or arith_switch
        ctx.site("Comparison arm: variables of both operands collected via Term::variables", bv.where(mm["Comparison"]), ok=ok, operands=sorted(seen))
        if not ok:
            ctx.violation("ast::BodyPredicate::variables:R-C02-b:arithmetic-operand-variables-missed", "BodyPredicate::variables looks only at operands that are plain variables: for `X + Z < 10` it reports no variable, SIP rewriting copies the comparison into a helper rule that does not bind Z, and the query fails with `Variable 'Z' not found in schema` with SIP on while it returns rows with SIP off", bv.where(mm["Comparison"]))
    if not done:
        raise CheckError("BodyPredicate::variables: no Comparison arm")
    ctx.end_rule()

    # ---- c: the hash that decides which subplans are shared covers the whole filter predicate
    ctx.rule("R-C02-c", "subplan sharing: the Filter arm of the subplan hash covers every field of the predicate", floor=1)
    hn = [x for x in F.bodies if x.endswith("SubplanSharer::hash_ir_recursive")]
    if len(hn) != 1:
        raise CheckError("SubplanSharer::hash_ir_recursive not found uniquely")
    h = F.fn(hn[0])
    found = False
    for (bb, adt, pl, mm, other) in h.enum_switches(IR):
        if "Filter" not in mm:
            continue
        found = True
        region = h.arm_region(list(mm.values()) + ([other] if other is not None else []), mm["Filter"], stop={bb})
        calls = [c for c in h.normal_calls() if c.bb in region]
        whole = [c for c in calls if re.search(r"Argument::<'_>::new_debug::<&(mut )?ir::Predicate>$", c.static_args or "") or re.search(r"<ir::Predicate as std::hash::Hash>::hash", c.static_args or "")]
        custom = [c for c in calls if (c.resolved or "") in F.bodies and c.resolved != h.name and "Predicate" in " ".join(F.fn(c.resolved).ty(i_) for i_ in range(1, F.fn(c.resolved).b["argc"] + 1))]
        ok = bool(whole)
        detail = "whole predicate hashed through its derived Debug / Hash"
        bad_arms = []
        if not whole and custom:
            # a hand-written per-variant hash: no field may be ignored
            ok = True
            for c in custom:
                sf = F.syn_for(F.fn(c.resolved))
                ms = [n for n in syn_walk(sf["body"]) if n.get("e") == "match"]
                if not ms:
                    ok = False
                    continue
                for arm in ms[0]["arms"]:
                    p_ = arm["pat"]
                    cases = p_["cases"] if p_.get("p") == "or" else [p_]
                    for cse in cases:
                        while cse.get("p") == "ref":
                            cse = cse["pat"]
                        if cse.get("p") != "ts":
                            continue
                        used = {n_["p"] for n_ in syn_walk(arm["body"]) if n_.get("e") == "path"}
                        for k_, e_ in enumerate(cse["elems"]):
                            if e_.get("p") == "wild" or (e_.get("p") == "ident" and (e_["name"].startswith("_") or e_["name"] not in used)):
                                bad_arms.append("%s field %d" % (last_seg(cse.get("path", "")), k_))
            ok = ok and not bad_arms
            detail = "per-variant hash %s" % ("covers every field" if ok else "ignores " + ", ".join(bad_arms))
        ctx.site("Filter arm of the subplan hash: %s" % detail, h.where(mm["Filter"]), ok=ok)
        if not ok:
            ctx.violation("%s:R-C02-c:predicate-field-not-hashed" % hn[0], "the hash that identifies equal subplans does not cover %s: two filters that differ only there are rewritten to scan one shared view, so with subplan sharing on the later rule returns the earlier rule's rows" % (", ".join(bad_arms) or "the whole predicate"), h.where(mm["Filter"]))
    if not found:
        raise CheckError("hash_ir_recursive: no Filter arm")
    ctx.end_rule()

    # ---- d: name-based rebuilding needs unique column names in every leaf
    ctx.rule("R-C02-d", "join reordering rebuilds the tree by column name: it is reached only when no leaf carries two columns of one name", floor=1)
    rebuilds = [c for c in f.normal_calls() if (c.resolved or "").endswith("JoinPlanner::rebuild_ir_with_order")]
    if not rebuilds:
        raise CheckError("plan_joins no longer calls rebuild_ir_with_order (anchor moved)")
    # is the rebuild name-based at all?  (a position lookup by name in it or in its callees)
    by_name = False
    for n in F.reach([rebuilds[0].resolved]):
        if n in F.bodies and n.startswith("join_planning::"):
            for c in F.fn(n).normal_calls():
                if re.search(r"Iterator>::position::<", c.static_args or "") or re.search(r"<impl \[std::string::String\]>::contains$", c.static_args or ""):
                    by_name = True
    guards_d = []
    for c in f.normal_calls():
        if not re.search(r"Iterator>::(any|all)::<", c.static_args or ""):
            continue
        kind = re.search(r"Iterator>::(any|all)::<", c.static_args).group(1)
        clo = None
        for a in c.args:
            if a.get("clo"):
                clo = a["clo"]
            al = op_local(a)
            for i_ in range(f.n):
                for st in f.stmts(i_):
                    rv = st["r"]
                    if al is not None and st["d"]["l"] == al and rv.get("k") == "agg" and rv.get("ak") == "closure":
                        clo = rv["def"]
        if clo is None or clo not in F.bodies:
            continue
        g = F.fn(clo)
        set_len = [x for x in g.normal_calls() if re.search(r"(HashSet|BTreeSet)::<.*>::len$", x.static_args or "")]
        vec_len = [x for x in g.normal_calls() if re.search(r"(Vec::<std::string::String>|<impl \[std::string::String\]>)::len$", x.static_args or "")]
        if not set_len or not vec_len:
            # duplicate detection written with `seen.insert(name)` instead of a size comparison
            if any(re.search(r"(HashSet|BTreeSet)::<.*>::insert$", x.static_args or "") for x in g.normal_calls()):
                br = common.branch_on_result(f, c)
                if br:
                    for (a_t, b_t) in ((br[1], br[2]), (br[2], br[1])):
                        guards_d.append((c, a_t, b_t))
            continue
        sd = g.derive({x.dst["l"] for x in set_len}, through_calls=False)
        vd = g.derive({x.dst["l"] for x in vec_len}, through_calls=False)
        op = None
        for i_ in range(g.n):
            for st in g.stmts(i_):
                rv = st["r"]
                if rv.get("k") == "bin" and rv["op"] in ("Eq", "Ne"):
                    a_, b_ = op_local(rv["a"]), op_local(rv["b"])
                    if (a_ in sd and b_ in vd) or (a_ in vd and b_ in sd):
                        op = rv["op"]
        br = common.branch_on_result(f, c)
        if op and br:
            # any(!=) true / all(==) false  <=> some leaf has duplicate names
            dup_t = br[2] if (kind, op) in (("any", "Ne"),) else (br[1] if (kind, op) in (("all", "Eq"),) else None)
            ok_t = br[1] if (kind, op) in (("any", "Ne"),) else (br[2] if (kind, op) in (("all", "Eq"),) else None)
            if dup_t is not None:
                guards_d.append((c, ok_t, dup_t))
    for r_ in rebuilds:
        ok = (not by_name) or any(f.dominates(ok_t, r_.bb) and not f.dominates(dup_t, r_.bb) for (_c, ok_t, dup_t) in guards_d)
        ctx.site("rebuild_ir_with_order is reached only with unique column names per leaf", r_.where(), ok=ok, rebuild_by_name=by_name, duplicate_name_guards=len(guards_d))
        if not ok:
            ctx.violation(JP + "::plan_joins:R-C02-d:rebuild-by-name-with-duplicate-names", "the reordered join tree is rebuilt by column name, but nothing keeps trees out whose leaf carries one variable in two columns (an atom such as e(X,X)): keys and projections looked up by name land on the wrong column - `q(X,Z) <- m(X,Z), e(X,X)` returns 2 rows with join planning on and 3 with it off", r_.where())
    ctx.end_rule()

    # ---- e: magic sets restrict a relation for all of its readers
    ctx.rule("R-C02-e", "the magic-set rewrite is applied only when the bound relation has a single reader outside its own definition", floor=1)
    am = F.fn("IQLEngine::apply_magic_sets")
    rw = [c for c in am.normal_calls() if (c.resolved or "").endswith("MagicSetRewriter::rewrite_program")]
    if not rw:
        raise CheckError("apply_magic_sets no longer calls rewrite_program (anchor moved)")
    guards_e = []
    for c in am.normal_calls():
        if not re.search(r"Iterator>::(all|any)::<", c.static_args or ""):
            continue
        # the quantified test looks at the relation names of body atoms and counts them
        reads_rel = counts = False
        for a in c.args:
            clo = a.get("clo")
            al = op_local(a)
            for i_ in range(am.n):
                for st in am.stmts(i_):
                    rv = st["r"]
                    if al is not None and st["d"]["l"] == al and rv.get("k") == "agg" and rv.get("ak") == "closure":
                        clo = rv["def"]
            if clo and clo in F.bodies:
                for n2 in F.with_closures(clo):
                    g2 = F.fn(n2)
                    if any(a2 == "ast::Atom" and fld == "relation" for (b2, kind, a2, fld, line, pl2) in g2.field_accesses()):
                        reads_rel = True
                    if any(re.search(r"Iterator>::count$", x.static_args or "") or re.search(r"::len$", x.static_args or "") for x in g2.normal_calls()):
                        counts = True
        br = common.branch_on_result(am, c)
        if reads_rel and counts and br:
            guards_e.append((c, br))
    for r_ in rw:
        ok = any(am.dominates(br[1], r_.bb) != am.dominates(br[2], r_.bb) for (_c, br) in guards_e)
        ctx.site("rewrite_program is reached only on one side of a reader-count test over the program's body atoms", r_.where(), ok=ok, reader_count_guards=len(guards_e))
        if not ok:
            ctx.violation("IQLEngine::apply_magic_sets:R-C02-e:rewrite-with-several-readers", "the magic-set rewrite replaces the bound relation by its demanded part for every reader, and nothing checks that the bound query atom is its only reader: `?reach(1,Y), reach(10,Z)` and a rule `far(X,Y) <- reach(X,Y), X >= 10` next to `?reach(1,Y), far(A,B)` return no rows with magic sets on and 6 / 9 rows with them off", r_.where())
    ctx.end_rule()

