"""C32 - relations are sets and write reports are accurate (set clause + count provenance)."""
import re
from ..core import CheckError, op_local, op_place, op_const, proj, place_fields
from . import common, dur, c20

KG = "storage_engine::KnowledgeGraph"
SE = "storage_engine::StorageEngine"
_VEC_GROW = re.compile(r"Vec::<value::Tuple>::(push|insert|append|extend_from_slice|extend_from_within|resize)$|Vec<value::Tuple> as std::iter::Extend")
_CONTAINS = re.compile(r"(Vec::<value::Tuple>|<impl \[value::Tuple\]>|\[value::Tuple\])::contains$|core::slice::<impl \[value::Tuple\]>::contains$")


def live_vectors(f):
    """locals that (may) refer to a Vec<Tuple> inside the graph's own engine map: derived from a borrow of self.engine.input_tuples"""
    seeds = set()
    for i in range(f.n):
        for st in f.stmts(i):
            rv = st["r"]
            if rv.get("k") in ("ref", "rawptr") and (KG, "engine") in place_fields(rv["p"]) and ("IQLEngine", "input_tuples") in place_fields(rv["p"]):
                seeds.add(st["d"]["l"])
    return f.derive(seeds, through_calls=True) if seeds else set()


_SET_INSERT = re.compile(r"^std::collections::(HashSet|BTreeSet)::<&?value::Tuple(, .*)?>::insert$")


def membership_tests(f, lv):
    """tests that decide `is this tuple already stored`: (call, new_side_block, dup_side_block, tuple_operand)
    - `live_vec.contains(&t)`                       : false -> new
    - `seen.insert(t)` on a set seeded from live_vec : true  -> new (the set records the tuple, so later copies in the batch are caught)"""
    out = []
    for c in f.normal_calls():
        sa = c.static_args or ""
        if _CONTAINS.search(sa) and op_local(c.args[0]) in lv:
            # the test must look at the whole (growing) vector, not a sub-slice
            whole = True
            for o in common.origins(f, op_local(c.args[0])):
                for x in f.normal_calls():
                    if x.dst["l"] == o and not proj(x.dst):
                        xa = x.static_args or ""
                        if "std::ops::Deref" not in xa and "std::ops::DerefMut" not in xa and "as_slice" not in xa:
                            whole = False
            br = common.branch_on_result(f, c)
            if br and whole:
                out.append((c, br[1], br[2], c.args[1] if len(c.args) > 1 else None))
        elif _SET_INSERT.match(sa) and op_local(c.args[0]) in lv:
            br = common.branch_on_result(f, c)
            if br:
                out.append((c, br[2], br[1], c.args[1] if len(c.args) > 1 else None))
    return out


def run(F, ctx):
    ctx.explanation = (
        "Decides: (a) the only place where a tuple is appended to a vector of the live relation map is dominated by the `absent` edge of a membership test of that same "
        "tuple against that same (growing) vector - so stored relations never hold a tuple twice, including duplicates inside one batch; recovery fills relations from "
        "consolidated updates (one entry per datum); (b) count provenance: the `new` counter is incremented exactly in the appending branch and the `duplicate` counter in "
        "the other; the delete count is the difference of the vector's length before and after the one retain(). Not decided: conditional delete / update semantics."
    )
    muts = c20.kg_mutators(F)
    # ---- a
    ctx.rule("R-C32-a", "every append to a live relation vector is guarded by a membership test of the same tuple on the same vector", floor=1)
    n_push = 0
    for n in sorted(muts) + [KG + "::enable_incremental"]:
        if n not in F.bodies:
            continue
        f = F.fn(n)
        lv = live_vectors(f)
        if not lv:
            continue
        grows = [c for c in f.normal_calls() if _VEC_GROW.search(c.static_args or "") and op_local(c.args[0]) in lv]
        tests = membership_tests(f, lv)
        for g in grows:
            n_push += 1
            ok = False
            for (c, new_t, dup_t, targ) in tests:
                same_tuple = len(g.args) > 1 and targ is not None and bool((common.origins(f, op_local(g.args[1])) | f.derive(common.origins(f, op_local(g.args[1])), through_calls=True)) & (common.origins(f, op_local(targ)) | f.derive(common.origins(f, op_local(targ)), through_calls=True)))
                if f.dominates(new_t, g.bb) and not f.dominates(dup_t, g.bb) and same_tuple:
                    ok = True
            ctx.site("%s: %s on a live relation vector" % (n.split("::")[-1], re.search(r"(push|insert|append|extend\w*|resize|Extend)", g.static_args).group(1)), g.where(), ok=ok)
            if not ok:
                ctx.violation("%s:R-C32-a:unguarded-append" % n, "%s appends to a stored relation without a dominating `not already present` test of that tuple on that vector: the relation can hold a tuple twice (e.g. a duplicate inside one insert batch)" % n.split("::")[-1], g.where())
    if n_push < 1:
        raise CheckError("no append to a live relation vector found (anchor moved)")
    # recovery path
    ld = F.fn(SE + "::load_knowledge_graph_from_persist")
    cons = [c for c in ld.normal_calls() if (c.resolved or "").endswith("consolidate_to_current")]
    tt = [c for c in ld.normal_calls() if (c.resolved or "").endswith("::to_tuples")]
    from . import c11
    replay = c11.set_replay_calls(F, ld)
    ok = bool(cons) and bool(tt) and dur.ordered_dom(ld, cons, tt)
    if replay and not cons:
        # set-replay recovery: contents are collected from a HashSet (no tuple twice by construction)
        d = set()
        for c in ld.normal_calls():
            if (c.static or "").endswith("PersistBackend::read"):
                d |= ld.derive({c.dst["l"]}, through_calls=True)
        ok = all(any(op_local(a) in d for a in c.args) for c in replay)
        adds = [c for c in ld.normal_calls() if (c.resolved or "").endswith("IQLEngine::add_tuples")]
        dr = set()
        for c in replay:
            dr |= ld.derive({c.dst["l"]}, through_calls=False)
        ok = ok and bool(adds) and all(op_local(c.args[2]) in dr for c in adds)
    elif ok:
        d = set()
        for c in ld.normal_calls():
            if (c.static or "").endswith("PersistBackend::read"):
                d |= ld.derive({c.dst["l"]}, through_calls=True)
        ok = all(op_local(c.args[0]) in d for c in cons) and all(op_local(c.args[0]) in d for c in tt)
    ctx.site("recovery: relations filled from a duplicate-free reconstruction of read(..) (consolidated diffs or set replay)", ld.where(), ok=ok)
    if not ok:
        ctx.violation(SE + "::load_knowledge_graph_from_persist:R-C32-a:unconsolidated-recovery", "recovery no longer consolidates the shard's updates before turning them into tuples: a re-inserted tuple would be loaded twice", ld.where())
    ctx.end_rule()

    # ---- b
    ctx.rule("R-C32-b", "count provenance: new/duplicate counters follow the membership branch; delete count = len before - len after the retain", floor=2)
    f = F.fn(KG + "::insert_in_memory")
    newc, dupc = f.need_local("new_count"), f.need_local("dup_count")
    lv = live_vectors(f)
    grows = [c for c in f.normal_calls() if _VEC_GROW.search(c.static_args or "") and op_local(c.args[0]) in lv]
    tests = membership_tests(f, lv)
    ok = newc is not None and dupc is not None and bool(grows) and bool(tests)
    if ok:
        (_c, false_t, true_t, _t) = tests[0]   # false_t: `new` side, true_t: `already stored` side

        def incs(local):
            out = []
            for i in sorted(f.live_blocks()):
                for st in f.stmts(i):
                    rv = st["r"]
                    if rv.get("k") == "bin" and rv["op"] in ("Add", "AddWithOverflow") and op_local(rv["a"]) is not None and local in common.origins(f, op_local(rv["a"])) and op_const(rv["b"]) and op_const(rv["b"])[1] == "1":
                        out.append(i)
            return out
        ni, di = incs(newc), incs(dupc)
        ok = bool(ni) and bool(di) and all(f.dominates(false_t, b) and not f.dominates(true_t, b) for b in ni) and all(f.dominates(true_t, b) and not f.dominates(false_t, b) for b in di)
        # returned pair is (new_count, dup_count) in this order
        okr = False
        for i in range(f.n):
            for st in f.stmts(i):
                rv = st["r"]
                if rv.get("k") == "agg" and rv.get("ak") == "tuple" and len(rv["ops"]) == 2:
                    a, b = op_local(rv["ops"][0]), op_local(rv["ops"][1])
                    if a is not None and b is not None and newc in common.origins(f, a) and dupc in common.origins(f, b):
                        okr = True
        ok = ok and okr
    ctx.site("insert_in_memory: counters follow the membership branch; returns (new, duplicate)", f.where(), ok=ok)
    if not ok:
        ctx.violation(KG + "::insert_in_memory:R-C32-b:counts", "insert_in_memory's new/duplicate counters are no longer incremented exactly on the appending / already-present branch (or are returned in another order): the insert report is inaccurate", f.where())
    g = F.fn(KG + "::delete_in_memory")
    lens = [c for c in g.normal_calls() if re.search(r"Vec::<value::Tuple>::len$", c.static_args or "")]
    rets = [c for c in g.normal_calls() if re.search(r"Vec::<value::Tuple>::retain", c.static_args or "")]
    dc = g.need_local("deleted_count")
    ok = len(rets) == 1 and len(lens) >= 2 and dc is not None
    if ok:
        before = [c for c in lens if g.dominates(c.bb, rets[0].bb)]
        after = [c for c in lens if g.dominates(rets[0].bb, c.bb)]
        ok = bool(before) and bool(after)
        if ok:
            okd = False
            for i in range(g.n):
                for st in g.stmts(i):
                    rv = st["r"]
                    if rv.get("k") == "bin" and rv["op"] in ("Sub", "SubWithOverflow"):
                        a, b = op_local(rv["a"]), op_local(rv["b"])
                        if a is not None and b is not None and any(x.dst["l"] in common.origins(g, a) for x in before) and any(x.dst["l"] in common.origins(g, b) for x in after):
                            if dc in g.derive({st["d"]["l"]}, through_calls=False):
                                okd = True
            ok = okd
    ctx.site("delete_in_memory: deleted_count = len_before - len_after around one retain()", g.where(), ok=ok)
    if not ok:
        ctx.violation(KG + "::delete_in_memory:R-C32-b:counts", "delete_in_memory's reported count is no longer the vector length before minus after the single retain()", g.where())
    ctx.end_rule()
