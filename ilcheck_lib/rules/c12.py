"""C12 - every stored value survives restart unchanged (writer/reader type tables)."""
import re
from ..core import CheckError, syn_walk, pat_paths, last_seg, op_local, op_const
from . import common

VALUE = "value::Value"
DT = "value::DataType"
BUILD = "value::arrow_convert::build_column_array"
EXTRACT = "value::arrow_convert::extract_value_from_array"
INFER = "storage::persist::infer_schema_from_updates"

_ARC_NEW = re.compile(r"^std::sync::Arc::<arrow::array::(.+)>::new$")
_DOWNCAST = re.compile(r"downcast_ref::<arrow::array::(.+)>$")
_IS = re.compile(r"::is::<arrow::array::(.+)>$")


def norm(t):
    t = re.sub(r"arrow::datatypes::", "", t)
    t = re.sub(r"arrow::array::", "", t)
    return t


def run(F, ctx):
    ctx.explanation = (
        "Decides the table clauses of the two persistence encodings: (a) Arrow/Parquet path - for every Value variant v, the Arrow array type that build_column_array "
        "constructs for DataType(v) is mapped back to v by the first matching downcast of extract_value_from_array (first-match evaluation of the downcast chain), i.e. "
        "R(W(V(v))) = v; (b) WAL/JSON path - the tag literal written for each variant is the literal whose arm reconstructs that same variant, and the reader has no "
        "silent default; (c) a column is encoded with one type taken from the first update, and a value of another type in that column is stored as an Arrow null "
        "(conflated with Value::Null) - reported per accessor arm. Not decided: bit-exactness through serde_json (NaN), vector dimensions."
    )
    variants = F.variants(VALUE)
    # ---- V: Value -> DataType (syn)
    dtf = F.syn_fn("data_type", file="src/value/mod.rs", impl_self="Value")
    ms = [n for n in syn_walk(dtf["body"]) if n.get("e") == "match"]
    if not ms:
        raise CheckError("Value::data_type has no match")
    V = {}
    for arm in ms[0]["arms"]:
        ps, w = pat_paths(arm["pat"])
        built = None
        for n in syn_walk(arm["body"]):
            if n.get("e") in ("path", "struct") and "DataType::" in (n.get("p") or ""):
                built = last_seg(n["p"])
                break
        for p in ps:
            V[last_seg(p)] = built
    # ---- W: DataType arm -> constructed arrow array types (MIR)
    b = F.fn(BUILD)
    sws = [s for s in b.enum_switches(DT)]
    if not sws:
        raise CheckError("build_column_array: no dispatch over DataType")
    (bb, adt, pl, mm, other) = max(sws, key=lambda s: len(s[3]))
    W = {}
    for dt, tgt in mm.items():
        region = b.arm_region(list(mm.values()) + [other], tgt, stop={bb})
        tys = []
        for c in b.normal_calls():
            if c.bb in region:
                m = _ARC_NEW.match(c.static_args or "")
                if m:
                    tys.append(norm(m.group(1)))
        W[dt] = tys
    # ---- R: ordered downcast chain (MIR): first match wins
    e = F.fn(EXTRACT)
    chain = []
    for c in sorted(e.normal_calls(), key=lambda c: c.bb):
        m = _DOWNCAST.search(c.static_args or "") or _IS.search(c.static_args or "")
        if not m:
            continue
        ty = norm(m.group(1))
        # the region entered when the downcast succeeds: which Value is built there (aggregate or constructor call)
        built = None
        succ_t = None
        res = e.derive({c.dst["l"]}, through_calls=False)
        if _IS.search(c.static_args or ""):
            br = common.branch_on_result(e, c)
            succ_t = br[2] if br else None
        else:
            for (sb, sadt, spl, smm, sother) in e.enum_switches("std::option::Option"):
                if spl["l"] in res and "Some" in smm:
                    succ_t = smm["Some"]
        if succ_t is None:
            continue
        chain.append((ty, succ_t, c))
    if len(chain) < 6:
        raise CheckError("extract_value_from_array: downcast chain not recognised (%d links)" % len(chain))

    def built_in(region):
        out = []
        for i in sorted(region):
            for st in e.stmts(i):
                rv = st["r"]
                if rv.get("k") == "agg" and rv.get("adt") == VALUE:
                    out.append(rv["var"])
            t = e.term(i)
            if t["k"] == "call" and "f" in t:
                r = t["f"].get("r") or t["f"]["d"]
                if r == "value::Value::vector":
                    out.append("Vector")
                elif r == "value::Value::vector_int8":
                    out.append("VectorInt8")
        return out

    links = []
    for (ty, succ_t, c) in chain:
        is_test = bool(_IS.search(c.static_args or ""))
        links.append({"ty": ty, "succ": succ_t, "bb": c.bb, "is": is_test})
    list_links = [l for l in links if "List" in l["ty"]]
    for l in links:
        l["outer"] = next((o for o in list_links if o is not l and e.dominates(o["succ"], l["bb"])), None)
    for l in links:
        inner = [x for x in links if x["outer"] is l]
        if l["is"]:
            # `is_null() || is::<NullArray>()`: the value is built in a block shared with the other disjunct
            region = e.reachable_from([l["succ"]], stop={x["bb"] for x in links})
        else:
            region = {i for i in e.reachable_from([l["succ"]]) if e.dominates(l["succ"], i) and not any(e.dominates(x["succ"], i) for x in inner)}
        l["built"] = built_in(region)
        l["inner"] = inner
    top = [l for l in links if l["outer"] is None]

    def read_back(tys):
        """first-match evaluation of the downcast chain on the array built by the writer:
        tys[-1] is the outer array type, tys[:-1] the value arrays it wraps"""
        if not tys:
            return None
        outer = tys[-1]
        for l in top:
            if l["ty"] == outer:
                if l["built"]:
                    return l["built"][0]
                for x in l["inner"]:
                    if x["ty"] in tys[:-1]:
                        return x["built"][0] if x["built"] else None
                return None
        return None

    ctx.rule("R-C12-a", "Arrow path: R(W(V(v))) = v for every Value variant (first-match evaluation of the reader's downcast chain)", floor=len(variants))
    for v in variants:
        dt = V.get(v)
        tys = W.get(dt, [])
        # per variant there may be several encodings (fixed / variable dimension): every one must read back as v
        encs = []
        if dt in ("Vector", "VectorInt8"):
            prim = [t for t in tys if "List" not in t]
            for lt in [t for t in tys if "List" in t]:
                encs.append(prim[:1] + [lt])
        else:
            encs.append(tys)
        res = [read_back(x) for x in encs]
        ok = bool(encs) and all(r == v for r in res)
        ctx.site("Value::%s -> DataType::%s -> %s -> %s" % (v, dt, [x[-1] if x else None for x in encs], res), b.where(mm.get(dt, bb)), ok=ok)
        if not ok:
            ctx.violation("value::arrow_convert:R-C12-a:%s-reads-back-as-%s" % (v, ",".join(str(r) for r in res)), "a stored Value::%s is written as %s and read back as %s: the value's type changes across flush + restart" % (v, [x[-1] if x else None for x in encs], res), b.where(mm.get(dt, bb)))
    ctx.end_rule()

    # ---- b: serde tag tables
    ctx.rule("R-C12-b", "WAL/JSON path: tag literal written for a variant is read back as that variant; no silent default", floor=2 * len(variants))
    ser = F.syn_fn("serialize", file="src/value/mod.rs", impl_self="Value")
    sm = [n for n in syn_walk(ser["body"]) if n.get("e") == "match"]
    wtab = {}
    for arm in sm[0]["arms"]:
        ps, w = pat_paths(arm["pat"])
        lit = None
        for n in syn_walk(arm["body"]):
            if n.get("e") == "mcall" and n["m"] == "serialize_entry" and len(n["args"]) == 2 and n["args"][0].get("v") == "type":
                lit = n["args"][1].get("v")
        for p in ps:
            wtab[last_seg(p)] = lit
    vm = F.syn_fn("visit_map", file="src/value/mod.rs")
    rtab = {}
    default_err = False
    for n in syn_walk(vm["body"]):
        if n.get("e") == "match" and any(a["pat"].get("p") == "lit" and a["pat"]["v"].strip('"') in wtab.values() for a in n["arms"]):
            for arm in n["arms"]:
                p = arm["pat"]
                built = None
                for x in syn_walk(arm["body"]):
                    if x.get("e") in ("call", "path") and "Value::" in ((x.get("f") or {}).get("p", "") if x.get("e") == "call" else x.get("p", "")):
                        built = last_seg((x.get("f") or {}).get("p", "") if x.get("e") == "call" else x["p"])
                        break
                if p.get("p") == "lit":
                    rtab[p["v"].strip('"')] = built
                elif p.get("p") in ("wild", "ident"):
                    default_err = any(x.get("e") == "call" and last_seg(x["f"].get("p", "")) == "Err" for x in syn_walk(arm["body"]))
    for v in variants:
        lit = wtab.get(v)
        back = rtab.get(lit)
        ok = lit is not None and back == v
        ctx.site("Value::%s -> \"%s\" -> %s" % (v, lit, back), "src/value/mod.rs:%s" % ser["line"], ok=ok)
        if not ok:
            ctx.violation("value::Value:R-C12-b:tag:%s" % v, "Value::%s is written to the WAL with tag %r, which the reader maps to %s" % (v, lit, back), "src/value/mod.rs:%s" % ser["line"])
    for lit, back in rtab.items():
        ctx.site("reader tag \"%s\" -> %s" % (lit, back), "src/value/mod.rs:%s" % vm["line"], ok=True)
    if not default_err:
        ctx.violation("value::Value:R-C12-b:silent-default", "the WAL value reader has a default arm that does not return an error", "src/value/mod.rs:%s" % vm["line"])
    ctx.end_rule()

    # ---- c/d: one type per column from the first update; other types become nulls
    ctx.rule("R-C12-c", "a column's values must not be coerced to Arrow null by a typed accessor when their type differs from the column type", floor=5)
    lossy = []
    for dt, tgt in sorted(mm.items()):
        region = b.arm_region(list(mm.values()) + [other], tgt, stop={bb})
        acc = set()
        for n in [BUILD] + F.children(BUILD):
            g = F.fn(n)
            for c in g.normal_calls():
                fnrefs = [a.get("fn", {}).get("d") for a in c.args if isinstance(a, dict) and a.get("fn")]
                for nm in [c.resolved] + fnrefs:
                    if nm and re.match(r"^value::Value::as_\w+$", nm) and (n != BUILD or c.bb in region):
                        acc.add(nm.split("::")[-1])
        # closures of the arm: created in the arm's region
        for i in region:
            for st in b.stmts(i):
                rv = st["r"]
                if rv.get("k") == "agg" and rv.get("ak") == "closure" and rv["def"] in F.bodies:
                    for c in F.fn(rv["def"]).normal_calls():
                        if c.resolved and re.match(r"^value::Value::as_\w+$", c.resolved):
                            acc.add(c.resolved.split("::")[-1])
        acc = {a for a in acc}
        if acc:
            lossy.append((dt, sorted(acc), tgt))
    inf = F.fn(INFER)
    const0 = set()
    for i in range(inf.n):
        for st in inf.stmts(i):
            cst = op_const(st["r"].get("o")) if st["r"].get("k") == "use" else None
            if cst and cst[1] == "0":
                const0.add(st["d"]["l"])
    idx0 = False
    for i in range(inf.n):
        for st in inf.stmts(i):
            rv = st["r"]
            pl_ = rv.get("p") if rv.get("k") == "ref" else None
            if pl_ and pl_["l"] == 1:
                for e_ in (pl_.get("p") or []):
                    if isinstance(e_, dict) and (e_.get("ci") == 0 or e_.get("i") in const0):
                        idx0 = True
    iter_updates = any(re.search(r"\[storage::persist::batch::Update\]>::iter$|<&\[storage::persist::batch::Update\] as std::iter::IntoIterator>::into_iter$", c.static_args or "") for c in inf.normal_calls())
    for (dt, acc, tgt) in lossy:
        ctx.site("DataType::%s arm reads values through %s (None => Arrow null)" % (dt, acc), b.where(tgt), ok=False)
    if lossy:
        ctx.violation("value::arrow_convert::build_column_array:R-C12-c:lossy-None", "build_column_array reads each value through a typed accessor (%s ...) whose None - returned for a value of another type - is stored as an Arrow null: in a schema-less relation a value whose type differs from the column type chosen at flush time comes back as Value::Null" % ", ".join(sorted({x for (_d, a, _t) in lossy for x in a})[:6]), b.where())
    ctx.site("schema inferred from updates[0] only", inf.where(), ok=not idx0, indexes_first=idx0, iterates_all=iter_updates)
    if idx0 and not iter_updates:
        ctx.violation(INFER + ":R-C12-d:first-update-only", "the batch schema is inferred from the first update alone while the whole slice is written with it: later updates of another type (or another vector dimension) in the same column are not representable", inf.where())
    # a column type with a fixed vector dimension is kept only if every row has that dimension: the row test must
    # look at every Value kind whose DataType can carry a fixed dimension
    dim_kinds = set()
    for (bb, adt, pl, mm, other) in inf.enum_switches("value::DataType"):
        for v in mm:
            vd = [x for x in F.adt("value::DataType")["variants"] if x["name"] == v]
            if vd and any(fd["name"] == "dim" for fd in vd[0]["fields"]):
                dim_kinds.add(v)
    tested = set()
    # closures of the row test: those handed to the iterator chain that ends in `all` (iter / filter / filter_map / map ... all)
    def closure_defs_in_args(call):
        out = []
        for a in call.args:
            al = op_local(a)
            for i_ in range(inf.n):
                for st in inf.stmts(i_):
                    rv = st["r"]
                    if al is not None and st["d"]["l"] in (common.origins(inf, al) | {al}) and rv.get("k") == "agg" and rv.get("ak") == "closure":
                        out.append(rv["def"])
            if a.get("clo"):
                out.append(a["clo"])
        return out
    scope = set()
    alls = [c for c in inf.normal_calls() if re.search(r"Iterator>::(all|any)::<", c.static_args or "")]
    for c in alls:
        cur = c
        for _ in range(8):
            for dn in closure_defs_in_args(cur):
                scope |= set(F.with_closures(dn))
            recv = op_local(cur.args[0]) if cur.args else None
            if recv is None:
                break
            srcs = common.origins(inf, recv) | {recv}
            prev = [x for x in inf.normal_calls() if x.dst and x.dst["l"] in srcs and x is not cur and "Iterator" in (x.static_args or "")]
            if not prev:
                break
            cur = prev[0]
    if dim_kinds and not scope:
        raise CheckError("infer_schema_from_updates: no all/any row test found for the fixed-dimension decision")
    for n_ in list(scope):
        for c in F.fn(n_).normal_calls():
            r = c.resolved
            if r and r in F.bodies and r.startswith("value::Value::"):
                scope.add(r)
    for n_ in sorted(scope):
        gg = F.fn(n_)
        lens = [c for c in gg.normal_calls() if re.search(r"(Vec::<(f32|i8)>|<impl \[(f32|i8)\]>)::len$", c.static_args or "")]
        for (bb, adt, pl, mm, other) in gg.enum_switches(VALUE):
            tested |= {v for v in mm if v in dim_kinds or v.startswith("Vector")}
    if dim_kinds:
        miss = sorted(dim_kinds - tested)
        ctx.site("fixed vector dimension kept only if every row agrees: row test covers %s" % sorted(dim_kinds), inf.where(), ok=not miss, tested=sorted(tested))
        if miss:
            ctx.violation(INFER + ":R-C12-d:dimension-test-skips-" + "+".join(miss), "the test that every row of a vector column has the first row's dimension does not look at %s values: such a column keeps a fixed dimension although its rows differ, the batch is written with mis-sliced lists (or cannot be written and the store no longer opens)" % "/".join(miss), inf.where())
    ctx.end_rule()

    # ---- e: JSON cannot carry non-finite floats
    ctx.rule("R-C12-e", "WAL/JSON path: a float is handed to the JSON serializer as a number only under an is_finite() test", floor=1)
    sname = next((n for n in F.bodies if n.startswith("<value::Value as ") and n.endswith("Serialize>::serialize")), None)
    if sname is None:
        raise CheckError("Serialize impl of Value not found")
    sf = F.fn(sname)
    ent = [c for c in sf.normal_calls() if re.search(r"serialize_entry::<str, (f64|f32|\[f32\]|std::vec::Vec<f32>)>$", c.static_args or "")]
    fin = [c for c in sf.normal_calls() if re.search(r"::is_finite$", c.static or "")]
    for n_ in F.children(sname):
        pass
    bad = []
    for c in ent:
        guarded = False
        for t in fin:
            br = common.branch_on_result(sf, t)
            if br and sf.dominates(br[2], c.bb):
                guarded = True
        # an `all(is_finite)` over the components also counts
        for t in sf.normal_calls():
            if re.search(r"Iterator>::all::<", t.static_args or ""):
                br = common.branch_on_result(sf, t)
                if br and sf.dominates(br[2], c.bb):
                    guarded = True
        ctx.site("float payload written as JSON number at line %s" % c.line, c.where(), ok=guarded)
        if not guarded:
            bad.append(c)
    if not ent:
        raise CheckError("no float serialize_entry call found in Value's Serialize impl")
    if bad:
        ctx.violation("%s:R-C12-e:non-finite-float-as-json-number" % sname, "Value's WAL encoding hands f64/f32 payloads to the JSON serializer unconditionally (%d sites): NaN and +-infinity are written as null, the entry cannot be read back and is skipped at replay, so an acknowledged tuple containing them is lost if the engine restarts before the next flush" % len(bad), bad[0].where())
    ctx.end_rule()
