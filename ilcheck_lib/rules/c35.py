"""C35 - ordered and paginated results are exact slices (totality + count clauses)."""
from ..core import CheckError, syn_walk, pat_paths, pat_bindings, last_seg, op_local, op_place, proj
from . import common

SORT = "protocol::handler::sort_rows"
PAGE = "protocol::handler::apply_pagination"
CMP = "protocol::handler::compare_wire_values"
RANK = "protocol::handler::wire_value_type_rank"


def run(F, ctx):
    ctx.explanation = (
        "Decides: (a) the comparator used for result ordering is built only from total comparisons (no partial/IEEE float "
        "comparison reachable from sort_rows), so sorting cannot fail or mis-order on NaN; (b) at every pagination site the rows "
        "are sorted before they are sliced, the reported total is the length of exactly the vector that is then paginated, and it is taken "
        "before pagination; (c) kinds that the comparator orders by value across kinds are adjacent in the rank table (otherwise "
        "rank order and value order form a cycle). Not decided: slice arithmetic of apply_pagination, lossy i64->f64 casts in the cross-kind comparison."
    )
    for a in (SORT, PAGE, CMP):
        F.fn(a)

    # ---- a
    ctx.rule("R-C35-a", "no partial/IEEE float comparison reachable from sort_rows (comparator is total)", floor=3)
    scope = F.reach([SORT])
    if CMP not in scope:
        raise CheckError("sort_rows no longer reaches compare_wire_values; comparator anchor moved")
    for n in sorted(scope):
        f = F.fn(n)
        bad = common.float_partial_ops(f)
        ctx.site(n, f.where(), ok=not bad)
        for (line, what) in bad:
            ctx.violation("%s:R-C35-a:%s" % (n, what), "result ordering uses a partial float comparison (%s): not a total order once NaN is present; sort_by may panic or leave rows unsorted" % what, "%s:%s" % (f.file, line))
    # any other sort_by/sort_unstable_by closure in handler.rs that feeds query results must be total too
    ctx.end_rule()

    # ---- b
    ctx.rule("R-C35-b", "sort dominates pagination; total_count = len() of the vector that is paginated, taken before pagination", floor=2)
    sites = F.call_sites_of(PAGE)
    for c in sites:
        f = c.fn
        where = c.where()
        sorts = [s for s in f.calls_to(SORT)]
        dom_sorts = [s for s in sorts if f.dominates(s.bb, c.bb) and s.bb != c.bb]
        ok_sort = bool(dom_sorts)
        # rows argument of apply_pagination
        rows_l = op_local(c.args[0])
        # the local must derive (by moves) from the sort result
        ok_rows = False
        src = None
        for s in dom_sorts:
            d = f.derive({s.dst["l"]}, through_calls=False)
            if rows_l in d:
                ok_rows = True
                src = s
        # len() call on the same vector between sort and paginate
        ok_len = False
        len_call = None
        if src is not None:
            d = f.derive({src.dst["l"]}, through_calls=False)
            for lc in f.normal_calls():
                if lc.matches(["std::vec::Vec::<T, A>::len"]) or (lc.resolved or "").endswith("Vec::<T, A>::len"):
                    a0 = op_local(lc.args[0])
                    if a0 in d and f.dominates(src.bb, lc.bb) and f.dominates(lc.bb, c.bb):
                        # the result feeds a QueryResult.total_count
                        ok_len = True
                        len_call = lc
                        break
        # total_count field of the returned QueryResult derives from that len
        ok_field = False
        if len_call is not None:
            dl = f.derive({len_call.dst["l"]}, through_calls=False)
            for i in range(f.n):
                for st in f.stmts(i):
                    rv = st["r"]
                    if rv.get("k") == "agg" and rv.get("ak") == "adt" and rv.get("adt", "").endswith("QueryResult") and "total_count" in rv.get("fields", []):
                        idx = rv["fields"].index("total_count")
                        if op_local(rv["ops"][idx]) in dl:
                            ok_field = True
        ok = ok_sort and ok_rows and ok_len and ok_field
        ctx.site("pagination site in %s" % f.name, where, ok=ok, sort_dominates=ok_sort, paginates_sorted_vector=ok_rows, len_between=ok_len, total_count_from_len=ok_field)
        if not ok_sort:
            ctx.violation("%s:R-C35-b:sort-not-before-pagination" % f.name, "apply_pagination is not dominated by sort_rows: a page would be cut from unsorted rows", where)
        elif not ok_rows:
            ctx.violation("%s:R-C35-b:paginates-other-vector" % f.name, "the vector handed to apply_pagination is not the result of sort_rows", where)
        elif not ok_len:
            ctx.violation("%s:R-C35-b:total-not-before-pagination" % f.name, "no len() of the sorted vector between sort_rows and apply_pagination: the reported total is not the full answer size", where)
        elif not ok_field:
            ctx.violation("%s:R-C35-b:total-count-source" % f.name, "QueryResult.total_count does not derive from the pre-pagination len()", where)
    ctx.end_rule()

    # ---- c: value-ordered cross-kind pairs must be rank-adjacent
    ctx.rule("R-C35-c", "kinds compared by value across kinds are adjacent in wire_value_type_rank; rank table covers every variant without a default", floor=9)
    rank_fn = F.syn_fn("wire_value_type_rank", file="src/protocol/handler.rs")
    ms = [n for n in syn_walk(rank_fn["body"]) if n.get("e") == "match"]
    if not ms:
        raise CheckError("wire_value_type_rank has no match")
    rank = {}
    for arm in ms[0]["arms"]:
        ps, w = pat_paths(arm["pat"])
        b = arm["body"]
        val = b.get("v") if b.get("e") == "lit" else None
        where = "src/protocol/handler.rs:%s" % arm["ln"]
        if w or val is None:
            ctx.site("rank arm", where, ok=False)
            ctx.violation("protocol::handler::wire_value_type_rank:R-C35-c:default-arm", "wire_value_type_rank has a wildcard/non-literal arm: a new value kind silently shares a rank", where)
            continue
        for p in ps:
            rank[last_seg(p)] = int(val)
            ctx.site("rank(%s)=%s" % (last_seg(p), val), where, ok=True)
    cmp_fn = F.syn_fn("compare_wire_values", file="src/protocol/handler.rs")
    inner = None
    for n in syn_walk(cmp_fn["body"]):
        if n.get("e") == "match" and n["on"].get("e") == "tuple" and [x.get("p") for x in n["on"]["xs"]] == ["va", "vb"]:
            inner = n
    if inner is None:
        # fall back: the match with the most arms
        cands = [n for n in syn_walk(cmp_fn["body"]) if n.get("e") == "match"]
        inner = max(cands, key=lambda n: len(n["arms"])) if cands else None
    if inner is None:
        raise CheckError("compare_wire_values: no kind-pair match found")
    for arm in inner["arms"]:
        p = arm["pat"]
        if p.get("p") != "tuple" or len(p["elems"]) != 2:
            continue
        lp, lw = pat_paths(p["elems"][0])
        rp, rw = pat_paths(p["elems"][1])
        if len(lp) == 1 and len(rp) == 1 and last_seg(lp[0]) != last_seg(rp[0]) and pat_bindings(p):
            a, b = last_seg(lp[0]), last_seg(rp[0])
            where = "src/protocol/handler.rs:%s" % arm["ln"]
            if a not in rank or b not in rank:
                raise CheckError("rank of %s/%s unknown" % (a, b))
            lo, hi = sorted((rank[a], rank[b]))
            between = [k for k, r in rank.items() if k not in (a, b) and lo <= r <= hi]
            ctx.site("value-ordered pair (%s,%s)" % (a, b), where, ok=not between)
            if between:
                ctx.violation("protocol::handler::compare_wire_values:R-C35-c:%s-%s:not-adjacent" % (a, b),
                              "%s and %s are ordered by value but %s ranks between/with them: rank order and value order form a cycle (ordering not transitive)" % (a, b, between), where)
    ctx.end_rule()
