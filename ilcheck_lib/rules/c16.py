"""C16 - rule and schema catalogs are durable and crash-safe."""
import re
from ..core import CheckError, op_local, proj
from . import common, dur

RC = "rule_catalog::RuleCatalog"
SC = "schema::catalog::SchemaCatalog"
KG = "storage_engine::KnowledgeGraph"
RC_NOT_MUTATORS = {"load": "reads the file into memory", "reload": "reads the file into memory", "new": "constructor", "save": "the save itself",
                   "clear": "in-memory reset used only when a knowledge graph is dropped (its directory is deleted)"}


def field_writers(F, prefix, adt, field):
    out = {}
    for n in sorted(F.bodies):
        if not n.startswith(prefix) or "{closure" in n:
            continue
        if ('"%s"' % adt) not in F.raw_line(n):
            continue
        f = F.fn(n)
        bbs = sorted({bb for (bb, kind, a, fd, line, pl) in f.field_accesses() if a == adt and fd == field and kind in ("w", "wb", "wp")})
        if bbs:
            out[n] = bbs
    return out


def run(F, ctx):
    ctx.explanation = (
        "Decides: (a) both catalog saves replace their file atomically (write temp -> sync -> rename -> directory sync; no create_new; no write after rename); "
        "(b) every RuleCatalog method that mutates the rule map reaches save() on every success path after the mutation, and every KnowledgeGraph method that "
        "calls a persistent SchemaCatalog mutator reaches save_schema_catalog() afterwards (the only tolerated skips are 'nothing changed' guards, each listed). "
        "Not decided: JSON contents; load-time fallbacks."
    )
    # ---- a
    ctx.rule("R-C16-a", "catalog files are replaced atomically", floor=2)
    dur.check_atomic_replace(F, ctx, RC + "::save", "C16")
    dur.check_atomic_replace(F, ctx, SC + "::save", "C16")
    ctx.end_rule()

    # ---- b rule catalog
    ctx.rule("R-C16-b", "every catalog mutation is saved before it is acknowledged", floor=10)
    writers = field_writers(F, RC + "::", RC, "rules")
    n_mut = 0
    for n, wbbs in writers.items():
        short = n.split("::")[-1]
        f = F.fn(n)
        if short in RC_NOT_MUTATORS:
            if short == "clear":
                callers = F.callers(n)
                ctx.site("RuleCatalog::clear (not a persistent mutator)", f.where(), ok=True, callers=callers)
                ctx.exempt(n, RC_NOT_MUTATORS[short])
            continue
        n_mut += 1
        saves = [c for c in f.normal_calls() if c.resolved == RC + "::save"]
        skip = dur.angelic_skip_targets(F, f, [c.bb for c in saves], ctx, n)
        bad = None
        for w in wbbs:
            if f.is_cleanup(w):
                continue
            ok, wit = dur.must_pass(f, [c.bb for c in saves], extra_stop=skip, start=w)
            if not ok:
                bad = (w, wit)
                break
        ctx.site("RuleCatalog::%s saves after mutating" % short, f.where(), ok=bad is None, mutation_blocks=len(wbbs), saves=len(saves))
        if bad:
            ctx.violation("%s:R-C16-b:unsaved-mutation" % n, "RuleCatalog::%s mutates the rule map and can return success without save(): the acknowledged change is lost (or reappears) after a restart" % short, f.where(bad[0]), detail="witness blocks %s" % bad[1])
    if n_mut < 7:
        raise CheckError("only %d RuleCatalog mutators found (expected >= 7)" % n_mut)
    # ---- b schema catalog: persistent mutators = SchemaCatalog fns that reach a writer of `persistent`
    direct = set(field_writers(F, SC + "::", SC, "persistent"))
    pm = set()
    for n in F.bodies:
        if n.startswith(SC + "::") and "{closure" not in n:
            if F.reach([n]) & direct:
                pm.add(n)
    pm -= {SC + "::load", SC + "::new", SC + "::default", SC + "::save"}
    n_sites = 0
    for n in sorted(F.bodies):
        if not n.startswith(KG + "::") or "{closure" in n:
            continue
        f = F.fn(n)
        muts = [c for c in f.normal_calls() if c.resolved in pm]
        if not muts:
            continue
        saves = [c for c in f.normal_calls() if c.resolved == KG + "::save_schema_catalog"]
        skip = dur.angelic_skip_targets(F, f, [c.bb for c in saves], ctx, n)
        for c in muts:
            n_sites += 1
            # the mutator's own error exit needs no save: start after the `?`/match on its result, i.e. from the call's continuation
            ok, wit = dur.must_pass(f, [s.bb for s in saves], extra_stop=skip, start=c.target)
            ctx.site("%s: %s then save_schema_catalog" % (n.split("::")[-1], c.resolved.split("::")[-1]), c.where(), ok=ok)
            if not ok:
                ctx.violation("%s:R-C16-b:unsaved-schema-mutation:%s" % (n, c.resolved.split("::")[-1]),
                              "KnowledgeGraph::%s changes the persistent schema catalog (%s) and can return success without save_schema_catalog(): the change is undone by a restart" % (n.split("::")[-1], c.resolved.split("::")[-1]), c.where(), detail="witness blocks %s" % wit)
    if n_sites < 3:
        raise CheckError("only %d KnowledgeGraph call sites of persistent SchemaCatalog mutators found (expected >= 3)" % n_sites)
    ctx.end_rule()
