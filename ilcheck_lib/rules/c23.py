"""C23 - why-not explanations are truthful (negation-blocker clause)."""
from . import provrules


def run(F, ctx):
    ctx.explanation = (
        "Decides one clause of why-not truthfulness, by sibling agreement inside the explainer: when a clause is blocked because a negated atom matches a fact, that fact may "
        "belong to a relation defined by rules, whose facts live in the derived data. Rule: in explain_why_not, the arm that handles a negated atom reads every fact source "
        "of the proof context (base data, derived data) that the arm for a positive atom reads. Otherwise the real blocker is missed and another, untrue one "
        "(`head_unification_failed`) is reported. Not decided: that every reported blocker holds for the tuple, that a derived tuple is never reported as blocked (run-time data)."
    )
    ctx.rule("R-C23-a", "explain_why_not: a negated atom is checked against the same fact sources as a positive atom", floor=1)
    provrules.check(F, ctx, "provenance::why_not::explain_why_not", "C23", "the blocker that really prevents the derivation (a derived fact matching the negated atom) is not reported and an untrue one is")
    ctx.end_rule()
