"""C23 - why-not explanations are truthful (negation-blocker clause)."""
from . import provrules


def run(F, ctx):
    ctx.explanation = (
        "Decides one clause of why-not truthfulness, by sibling agreement inside the explainer: when a clause is blocked because a negated atom matches a fact, that fact may "
        "belong to a relation defined by rules, whose facts live in the derived data. Rule: in explain_why_not, the arm that handles a negated atom reads every fact source "
        "of the proof context (base data, derived data) that the arm for a positive atom reads. Otherwise the real blocker is missed and another, untrue one "
        "(`head_unification_failed`) is reported. (b) The lookup shared by the explainer and the prover compares a bound term with a stored value through the prover's own "
        "comparator values_equal (which identifies the two integer widths), never through the derived equality of Value / Tuple. Not decided: that every reported blocker holds for the tuple, that a derived tuple is never reported as blocked (run-time data)."
    )
    ctx.rule("R-C23-a", "explain_why_not: a negated atom is checked against the same fact sources as a positive atom", floor=1)
    provrules.check(F, ctx, "provenance::why_not::explain_why_not", "C23", "the blocker that really prevents the derivation (a derived fact matching the negated atom) is not reported and an untrue one is")
    ctx.end_rule()

    # ---- b: lookups compare values with the prover's own comparator
    import re
    from ..core import CheckError
    ctx.rule("R-C23-b", "find_matching_tuples compares bound terms with stored values through values_equal only (Int32 / Int64 of one number are the same value)", floor=2)
    scope = F.with_closures("provenance::unification::find_matching_tuples")
    strict, loose = [], []
    for n in sorted(scope):
        for c in F.fn(n).normal_calls():
            sa = c.static_args or ""
            if re.search(r"<&?(value::Value|value::Tuple|std::vec::Vec<value::Value>|\[value::Value\]) as std::cmp::PartialEq(<.*>)?>::(eq|ne)$", sa):
                strict.append(c)
            if (c.resolved or "") == "provenance::unification::values_equal":
                loose.append(c)
    if len(loose) < 2:
        raise CheckError("find_matching_tuples: expected its two values_equal comparisons (positive control), found %d" % len(loose))
    for c in loose:
        ctx.site("comparison through values_equal", c.where(), ok=True)
    for c in strict:
        ctx.site("strict equality on Value / Tuple", c.where(), ok=False)
        ctx.violation("provenance::unification::find_matching_tuples:R-C23-b:strict-equality", "find_matching_tuples compares with the derived `==` of Value / Tuple, which distinguishes Int32(7) from Int64(7); aggregate and arithmetic columns are Int64 while literals that fit are Int32, so a fully bound lookup misses the stored row: a derived tuple is reported blocked (`No matching tuples in score`) and a negation blocker is missed", c.where())
    ctx.end_rule()

    # ---- c: the wire handler gives the explainer the derived facts
    from ..core import op_local
    ctx.rule("R-C23-c", ".why_not over the wire builds its proof context with the derived facts of the graph, as .why does", floor=2)
    H = "protocol::handler::QueryJob"
    for (hn, consumer) in ((H + "::why_query", "build_proof_tree"), (H + "::why_not_query", "explain_why_not")):
        h = F.fn(hn)
        cons = [c for c in h.normal_calls() if (c.resolved or "").endswith("::" + consumer)]
        wd = [c for c in h.normal_calls() if re.search(r"ProofContext(::<.*>)?::with_derived_data$", c.resolved or "")]
        ev = [c for c in h.normal_calls() if (c.resolved or "").endswith("StorageEngine::execute_and_get_context")]
        # execute_and_get_context may be called from a closure (and_then(|t| ...))
        for n_ in F.with_closures(hn):
            if n_ != hn:
                ev += [c for c in F.fn(n_).normal_calls() if (c.resolved or "").endswith("StorageEngine::execute_and_get_context")]
        if not cons:
            raise CheckError("%s no longer calls %s (anchor moved)" % (hn, consumer))
        wdd = set()
        for c in wd:
            wdd |= h.derive({c.dst["l"]}, through_calls=True, stop_calls=[re.compile(r"explain_why_not$|build_proof_tree$")])
        ok = bool(wd) and bool(ev) and all(any(op_local(a) in wdd for a in c.args) for c in cons)
        ctx.site("%s: context handed to %s carries derived data from an evaluation of the graph" % (hn.split("::")[-1], consumer), h.where(), ok=ok, with_derived_data_calls=len(wd), evaluations=len(ev))
        if not ok:
            ctx.violation("%s:R-C23-c:context-without-derived-data" % hn, "%s builds the proof context from rules and base data only: every clause whose body mentions a relation defined by rules is reported blocked (`No matching tuples in a` although a(1) is derivable), and a negated derived atom is never seen as the blocker" % hn.split("::")[-1], h.where())
    ctx.end_rule()
