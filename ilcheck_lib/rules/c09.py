"""C09 - rules behave the same inline, as session rules and as persistent rules
(print/re-parse and catalog-serialisation clauses)."""
import re
from ..core import CheckError, syn_walk, pat_paths, last_seg

TERM_FMT = "<ast::Term as std::fmt::Display>::fmt"
ARITH_FMT = "<ast::ArithExpr as std::fmt::Display>::fmt"
RULE_FMT = "<ast::Rule as std::fmt::Display>::fmt"
_DISP_F = re.compile(r"Argument::<'_>::new_display::<&?(mut )?f(32|64)>")
_DBG_F = re.compile(r"Argument::<'_>::new_(debug|lower_exp|upper_exp)::<&?(mut )?f(32|64)>")
_TOSTR_F = re.compile(r"^<f(32|64) as std::string::ToString>::to_string$")


_CONS = {}


def constructors(F, adt, variant):
    """functions (outside derives and the serialisation module) that build adt::variant"""
    if adt not in _CONS:
        tab = {}
        for name in F.bodies:
            if " as std::clone::Clone>" in name or name.startswith("statement::serialize::") or " as std::fmt::" in name:
                continue
            b = F.bodies[name]
            if ('"adt":"%s"' % adt) not in F.raw_line(name):
                continue
            f = F.fn(name)
            for i in range(f.n):
                for st in f.stmts(i):
                    rv = st["r"]
                    if rv.get("k") == "agg" and rv.get("adt") == adt:
                        tab.setdefault(rv["var"], []).append(name)
        _CONS[adt] = {k: sorted(set(v)) for k, v in tab.items()}
    return _CONS[adt].get(variant, [])


def run(F, ctx):
    ctx.explanation = (
        "Persistent rules, session rules and the cached rule prefix are printed text that is re-parsed, and persistent rules are stored "
        "through the Serializable* mirror types. Decides: (a) wherever the printer of a rule prints a float *constant* it uses a formatter that "
        "keeps a float lexeme ({:?}), never Display on f64 (which prints 2.0 as `2`, re-parsed as an integer); (b) the Term<->SerializableTerm, "
        "ArithExpr<->SerializableArithExpr, BodyPredicate<->SerializableBodyPred conversion tables are variant-preserving in both directions "
        "(no variant collapsed into another); (c) every producer of stored/cached rule text goes through the one Display impl. "
        "(d) the arithmetic printer's parenthesisation decision, tabulated for every (parent operator, child operator, side), puts parentheses wherever the "
        "parser's precedence levels (read off parse_add_sub -> parse_mul_div -> parse_primary: which function builds which operator and which function parses its "
        "left / right operand) would otherwise regroup the printed text. Not decided: string escaping, vector literals, the rest of the grammar."
    )
    # ---- a
    ctx.rule("R-C09-a", "float constants of rules are printed with a float-lexeme formatter", floor=2)
    scope = F.reach([RULE_FMT])
    if TERM_FMT not in scope or ARITH_FMT not in scope:
        raise CheckError("Rule's Display no longer reaches Term/ArithExpr Display (printer anchor moved)")
    for fname, adt in ((TERM_FMT, "ast::Term"), (ARITH_FMT, "ast::ArithExpr")):
        f = F.fn(fname)
        sws = [s for s in f.enum_switches(adt) if "FloatConstant" in s[3]]
        if not sws:
            raise CheckError("%s: no switch over %s with a FloatConstant arm" % (fname, adt))
        for (bb, _adt, _pl, m, other) in sws:
            region = f.arm_region(list(m.values()) + [other], m["FloatConstant"])
            fns_in_region = set()
            disp, dbg = [], []
            for c in f.normal_calls():
                if c.bb not in region:
                    continue
                da = c.static_args or ""
                if _DISP_F.search(da) or _TOSTR_F.match(da):
                    disp.append(c)
                if _DBG_F.search(da):
                    dbg.append(c)
                for a in c.args:
                    fnc = a.get("fn")
                    if fnc and _TOSTR_F.match(fnc.get("da", "")):
                        disp.append(c)
                r = c.resolved
                if r in F.bodies and r not in scope:
                    fns_in_region.add(r)
            # helpers called from the arm: same rule inside them
            for h in sorted(fns_in_region):
                for hn in F.reach([h]):
                    hf = F.fn(hn)
                    for c in hf.normal_calls():
                        da = c.static_args or ""
                        if _DISP_F.search(da) or _TOSTR_F.match(da):
                            disp.append(c)
                        if _DBG_F.search(da):
                            dbg.append(c)
            ok = bool(dbg) and not disp
            ctx.site("%s FloatConstant arm" % fname, f.where(m["FloatConstant"]), ok=ok, display_f64=len(disp), lexeme_preserving=len(dbg))
            if disp:
                ctx.violation("%s:R-C09-a:display-f64" % fname, "the FloatConstant arm prints the f64 with Display/to_string: 2.0 prints as `2` and re-parses as an integer constant", disp[0].where())
            elif not dbg:
                ctx.violation("%s:R-C09-a:no-float-lexeme-formatter" % fname, "the FloatConstant arm does not format the f64 with a float-lexeme-preserving formatter ({:?})", f.where(m["FloatConstant"]))
    ctx.end_rule()

    # ---- b: conversion tables
    ctx.rule("R-C09-b", "AST <-> Serializable* conversion tables are variant-preserving in both directions", floor=30)
    pairs = [
        ("ast::Term", "statement::serialize::SerializableTerm", "SerializableTerm", "from_term", "to_term"),
        ("ast::ArithExpr", "statement::serialize::SerializableArithExpr", "SerializableArithExpr", "from_arith_expr", "to_arith_expr"),
        ("ast::ArithOp", "statement::serialize::SerializableArithOp", "SerializableArithOp", "from_arith_op", "to_arith_op"),
        ("ast::ComparisonOp", "statement::serialize::SerializableComparisonOp", "SerializableComparisonOp", "from_op", "to_op"),
    ]
    for (src_adt, ser_adt, impl_self, from_fn, to_fn) in pairs:
        src_vs = F.variants(src_adt)
        ser_vs = F.variants(ser_adt)
        fr = F.syn_fn(from_fn, file="src/statement/serialize.rs", impl_self=impl_self)
        to = F.syn_fn(to_fn, file="src/statement/serialize.rs", impl_self=impl_self)

        def table(fnrec):
            ms = [n for n in syn_walk(fnrec["body"]) if n.get("e") == "match"]
            if not ms:
                raise CheckError("%s has no match" % fnrec["name"])
            tab, wild = {}, None
            for arm in ms[0]["arms"]:
                ps, w = pat_paths(arm["pat"])
                built = None
                b = arm["body"]
                # constructed variant = first path/call/struct head in the body
                for n in syn_walk(b):
                    if n.get("e") == "call" and n["f"].get("e") == "path":
                        built = n["f"]["p"]
                        break
                    if n.get("e") == "struct":
                        built = n["p"]
                        break
                    if n.get("e") == "path" and "::" in n["p"]:
                        built = n["p"]
                        break
                if w and not ps:
                    wild = (built, arm["ln"])
                for p in ps:
                    tab[last_seg(p)] = (built, arm["ln"])
            return tab, wild

        ftab, fwild = table(fr)
        ttab, twild = table(to)
        for v in src_vs:
            where = "src/statement/serialize.rs:%s" % (ftab[v][1] if v in ftab else (fwild[1] if fwild else fr["line"]))
            if v in ftab:
                built = last_seg(ftab[v][0] or "")
                ok = built == v
                ctx.site("%s::%s -> %s" % (last_seg(src_adt), v, built), where, ok=ok)
                if not ok:
                    ctx.violation("statement::serialize::%s::%s:R-C09-b:renamed:%s" % (impl_self, from_fn, v), "%s::%s is stored as %s: the variant is not preserved by the catalog serialisation" % (last_seg(src_adt), v, built), where)
            else:
                built = last_seg(fwild[0]) if fwild and fwild[0] else "?"
                # a variant nothing in the crate constructs cannot reach the catalog
                makers = constructors(F, src_adt, v)
                if not makers:
                    ctx.site("%s::%s -> (wildcard) %s, but never constructed in the crate" % (last_seg(src_adt), v, built), where, ok=True)
                    ctx.exempt("%s::%s collapsed by %s" % (last_seg(src_adt), v, from_fn), "no function of the crate constructs this variant (MIR aggregate scan), so no accepted rule contains it")
                    continue
                ctx.site("%s::%s -> (wildcard) %s" % (last_seg(src_adt), v, built), where, ok=False, constructed_in=makers[:4])
                ctx.violation("statement::serialize::%s::%s:R-C09-b:lossy:%s" % (impl_self, from_fn, v),
                              "%s::%s is collapsed to %s by the wildcard arm of %s: a persistent rule using it denotes a different rule than the same rule inline" % (last_seg(src_adt), v, built, from_fn), where)
        for v in ser_vs:
            where = "src/statement/serialize.rs:%s" % (ttab[v][1] if v in ttab else to["line"])
            if v in ttab:
                built = last_seg(ttab[v][0] or "")
                ok = built == v
                ctx.site("%s::%s -> %s" % (impl_self, v, built), where, ok=ok)
                if not ok:
                    ctx.violation("statement::serialize::%s::%s:R-C09-b:renamed:%s" % (impl_self, to_fn, v), "%s::%s is loaded as %s" % (impl_self, v, built), where)
            else:
                ctx.site("%s::%s -> (wildcard)" % (impl_self, v), where, ok=False)
                ctx.violation("statement::serialize::%s::%s:R-C09-b:lossy:%s" % (impl_self, to_fn, v), "%s::%s has no arm of its own in %s" % (impl_self, v, to_fn), where)
    # BodyPredicate: Positive/Negated share Atom{negated}; Comparison maps to Comparison; anything else is lossy
    bp_vs = F.variants("ast::BodyPredicate")
    fr = F.syn_fn("from_body_pred", file="src/statement/serialize.rs", impl_self="SerializableBodyPred")
    ms = [n for n in syn_walk(fr["body"]) if n.get("e") == "match"]
    if not ms:
        raise CheckError("from_body_pred has no match")
    seen = {}
    for arm in ms[0]["arms"]:
        ps, w = pat_paths(arm["pat"])
        built = None
        negated = None
        lit_relation = None
        for n in syn_walk(arm["body"]):
            if n.get("e") == "struct" and built is None:
                built = last_seg(n["p"])
                for (fname, fe) in n["fields"]:
                    if fname == "negated" and fe.get("e") == "lit":
                        negated = fe["v"]
                    if fname == "relation":
                        for m in syn_walk(fe):
                            if m.get("e") == "lit" and m.get("t") == "str":
                                lit_relation = m["v"]
        for p in ps:
            seen[last_seg(p)] = (built, negated, lit_relation, arm["ln"])
        if w and not ps:
            seen["_"] = (built, negated, lit_relation, arm["ln"])
    expect = {"Positive": ("Atom", "false"), "Negated": ("Atom", "true"), "Comparison": ("Comparison", None)}
    for v in bp_vs:
        ent = seen.get(v) or seen.get("_")
        where = "src/statement/serialize.rs:%s" % (ent[3] if ent else fr["line"])
        if v in expect and ent and v in seen:
            ok = (ent[0], ent[1]) == expect[v] and ent[2] is None
            ctx.site("BodyPredicate::%s -> %s" % (v, ent[0]), where, ok=ok)
            if not ok:
                ctx.violation("statement::serialize::SerializableBodyPred::from_body_pred:R-C09-b:renamed:%s" % v, "BodyPredicate::%s is stored as %s{negated:%s}" % (v, ent[0], ent[1]), where)
        else:
            ctx.site("BodyPredicate::%s -> lossy" % v, where, ok=False)
            ctx.violation("statement::serialize::SerializableBodyPred::from_body_pred:R-C09-b:lossy:%s" % v,
                          "BodyPredicate::%s is stored as a placeholder atom (%s): a persistent rule using it denotes a different rule than the same rule inline" % (v, ent[2] if ent else "?"), where)
    ctx.end_rule()

    # ---- c: one printer
    ctx.rule("R-C09-c", "stored / cached / replayed rule text is produced by Rule's Display impl only", floor=2)
    prods = []
    for nm in ("protocol::handler::format_rule_text", "storage_engine::format_rule"):
        f = F.fn(nm)
        ok = RULE_FMT in F.reach([nm]) and len([c for c in f.normal_calls() if (c.resolved or "") in F.bodies]) == 0
        prods.append(nm)
        ctx.site(nm, f.where(), ok=ok, callers=len(F.callers(nm)))
        if not ok:
            ctx.violation("%s:R-C09-c:not-display" % nm, "%s no longer prints rules through Rule's Display impl alone" % nm, f.where())
    # the rule prefix handed to the engine is built from format_rule
    bp = F.fn("storage_engine::snapshot::KnowledgeGraphSnapshot::build_rule_prefix")
    ok = any(c.resolved == "storage_engine::format_rule" for c in bp.normal_calls())
    ctx.site("build_rule_prefix uses format_rule", bp.where(), ok=ok)
    if not ok:
        ctx.violation("storage_engine::snapshot::KnowledgeGraphSnapshot::build_rule_prefix:R-C09-c:other-printer", "the cached rule prefix is no longer printed with format_rule (Rule's Display)", bp.where())
    ctx.end_rule()

    # ---- d: printer / parser precedence agreement
    from . import c09prec
    c09prec.run_clause(F, ctx)
