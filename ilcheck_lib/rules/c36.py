"""C36 - probabilistic and hash indexes never lose keys."""
import re
from ..core import CheckError, op_local, op_place, op_const, proj, place_fields
from . import common

BF = "bloom_filter::BloomFilter"
INS = BF + "::insert"
MC = BF + "::might_contain"
HP = BF + "::hash_pair"
GBI = BF + "::get_bit_index"
HI = "hash_index::HashIndex"


def local_callees(F, f):
    out = set()
    for c in f.normal_calls():
        for nm in (c.resolved, c.static):
            if nm in F.bodies:
                out.add(nm)
    return out


def const_binops(f):
    """multiset of (op, const value) for Div/Rem with a constant operand"""
    out = []
    for i in sorted(f.live_blocks()):
        for st in f.stmts(i):
            rv = st["r"]
            if rv.get("k") == "bin" and rv["op"] in ("Div", "Rem"):
                cb = op_const(rv["b"])
                if cb:
                    out.append((rv["op"], cb[1]))
    return sorted(out)


def reads_field(f, adt, field):
    return [x for x in f.field_accesses() if x[2] == adt and x[3] == field]


def run(F, ctx):
    ctx.explanation = (
        "Decides: (a) BloomFilter::insert and might_contain derive bit positions through the same callees (hash_pair, get_bit_index), the same loop "
        "bound field and the same word/offset arithmetic, and get_bit_index reduces modulo num_bits; (b) filter parameters are written only by "
        "constructors and bits only by insert/clear; (c) every HashIndex function that adds a key to the map inserts that same key into the bloom filter, "
        "and the filter is cleared only together with the map; (d) the bloom-accelerated lookups return the map's answer unchanged on the might-contain side "
        "and probe with the caller's key. Not decided: hash quality, false-positive rate."
    )
    ins, mc = F.fn(INS), F.fn(MC)
    # ---- a
    ctx.rule("R-C36-a", "insert and might_contain share one index derivation", floor=4)
    ci, cm = local_callees(F, ins), local_callees(F, mc)
    need = {HP, GBI}
    ok = need <= ci and need <= cm and (ci - need) == (cm - need)
    ctx.site("callees agree", ins.where(), ok=ok, insert=sorted(ci), might_contain=sorted(cm))
    if not ok:
        ctx.violation(BF + ":R-C36-a:callees-differ", "BloomFilter::insert and might_contain no longer compute bit positions through the same functions (insert: %s; might_contain: %s): an inserted key can test as absent" % (sorted(ci), sorted(cm)), mc.where())
    # same arguments to get_bit_index: (h1, h2, i) all derived identically: compare positional provenance of the hash pair
    for f in (ins, mc):
        hp = f.calls_to(HP)
        gb = f.calls_to(GBI)
        okf = bool(hp) and bool(gb)
        if okf:
            d = f.derive({hp[0].dst["l"]}, through_calls=False)
            for g in gb:
                okf = okf and op_local(g.args[1]) in d and op_local(g.args[2]) in d
                # h1 and h2 are distinct tuple fields 0 and 1, in this order
                def fld(l, depth=0):
                    for i in range(f.n):
                        for st in f.stmts(i):
                            if st["d"]["l"] == l and not proj(st["d"]) and st["r"].get("k") == "use":
                                p = op_place(st["r"]["o"])
                                fs = place_fields(p) if p else []
                                if fs:
                                    return fs[-1][1]
                                if p and depth < 4:
                                    return fld(p["l"], depth + 1)
                    return None
                order = (fld(op_local(g.args[1])), fld(op_local(g.args[2])))
                okf = okf and order == ("0", "1")
        ctx.site("%s passes (h1,h2) of hash_pair to get_bit_index in order" % f.name, f.where(), ok=okf)
        if not okf:
            ctx.violation("%s:R-C36-a:hash-args" % f.name, "%s does not pass hash_pair's (h1, h2) to get_bit_index in the same order as its sibling" % f.name, f.where())
    bi, bm = const_binops(ins), const_binops(mc)
    ok = bi == bm and bool(bi)
    ctx.site("word/offset arithmetic agrees", ins.where(), ok=ok, insert=bi, might_contain=bm)
    if not ok:
        ctx.violation(BF + ":R-C36-a:arithmetic-differs", "insert and might_contain split the bit index into word/offset differently (%s vs %s)" % (bi, bm), mc.where())
    li = {x[3] for x in reads_field(ins, BF, "num_hashes")} | {x[3] for x in reads_field(ins, BF, "num_bits")}
    lm = {x[3] for x in reads_field(mc, BF, "num_hashes")} | {x[3] for x in reads_field(mc, BF, "num_bits")}
    ok = li == lm and "num_hashes" in li
    ctx.site("loop bound field agrees", ins.where(), ok=ok, insert=sorted(li), might_contain=sorted(lm))
    if not ok:
        ctx.violation(BF + ":R-C36-a:loop-bound-differs", "insert and might_contain iterate over different bounds (%s vs %s)" % (sorted(li), sorted(lm)), mc.where())
    g = F.fn(GBI)
    rem = False
    nb = g.derive({x[5]["l"] for x in []}, through_calls=False)
    nb_locals = set()
    for i in range(g.n):
        for st in g.stmts(i):
            rv = st["r"]
            for o in ([rv.get("o")] if rv.get("k") in ("use", "cast") else []):
                p = op_place(o)
                if p and any(fn_ == "num_bits" for (_a, fn_) in place_fields(p)):
                    nb_locals.add(st["d"]["l"])
    nb_locals = g.derive(nb_locals, through_calls=False)
    for i in range(g.n):
        for st in g.stmts(i):
            rv = st["r"]
            if rv.get("k") == "bin" and rv["op"] == "Rem" and op_local(rv["b"]) in nb_locals:
                rem = True
    ctx.site("get_bit_index reduces modulo num_bits", g.where(), ok=rem)
    if not rem:
        ctx.violation(GBI + ":R-C36-a:no-modulo", "get_bit_index does not reduce the position modulo num_bits", g.where())
    ctx.end_rule()

    # ---- b
    ctx.rule("R-C36-b", "filter parameters immutable after construction; bits written only by insert/clear", floor=2)
    allowed = {"bits": {INS, BF + "::clear"}, "num_bits": set(), "num_hashes": set()}
    for n in F.bodies:
        if "bloom_filter" not in n and "hash_index" not in n:
            continue
        if '"bloom_filter::BloomFilter"' not in F.raw_line(n):
            continue
        f = F.fn(n)
        for (bb, kind, adt, field, line, place) in f.field_accesses():
            if adt == BF and field in allowed and kind in ("w", "wb", "wp"):
                ok = n in allowed[field]
                ctx.site("%s writes BloomFilter.%s" % (n, field), "%s:%s" % (f.file, line), ok=ok)
                if not ok:
                    ctx.violation("%s:R-C36-b:writes:%s" % (n, field), "%s mutates BloomFilter.%s after construction: positions of already inserted keys are no longer the ones a lookup tests" % (n, field), "%s:%s" % (f.file, line))
    ctx.end_rule()

    # ---- c
    ctx.rule("R-C36-c", "every HashIndex function that adds a key to the map inserts the same key into the bloom filter; clear only together", floor=3)
    for n in sorted(F.bodies):
        if not n.startswith(HI + "::") or "{closure" in n:
            continue
        f = F.fn(n)
        adds = [c for c in common.calls_on_field(f, "index") if re.search(r"HashMap::<.*>::(entry|insert)$", c.static_args or "")]
        bins = [c for c in f.normal_calls() if c.resolved == INS or c.static == INS]
        bclr = [c for c in f.normal_calls() if (c.resolved or "") == BF + "::clear"]
        iclr = [c for c in common.calls_on_field(f, "index") if re.search(r"HashMap::<.*>::clear$", c.static_args or "")]
        for a in adds:
            kl = op_local(a.args[1])
            ok = False
            for b in bins:
                # second argument of bloom.insert is &key
                same = bool(common.origins(f, op_local(b.args[1])) & common.origins(f, kl))
                if same and (f.dominates(b.bb, a.bb) or f.dominates(a.bb, b.bb)):
                    ok = True
            ctx.site("%s adds a key to the map" % n, a.where(), ok=ok, bloom_inserts=len(bins))
            if not ok:
                ctx.violation("%s:R-C36-c:key-not-in-bloom" % n, "%s adds a key to the hash map without inserting the same key into the bloom filter: get_with_bloom/probe then answer `absent` for a stored key" % n, a.where())
        for b in bclr:
            ok = bool(iclr)
            ctx.site("%s clears the bloom filter" % n, b.where(), ok=ok)
            if not ok:
                ctx.violation("%s:R-C36-c:bloom-cleared-alone" % n, "%s clears the bloom filter but not the map: stored keys test as absent" % n, b.where())
    ctx.end_rule()

    # ---- d
    ctx.rule("R-C36-d", "bloom-accelerated lookups return the map's answer on the might-contain side and probe with the caller's key", floor=2)
    g = F.fn(HI + "::get_with_bloom")
    key = 2
    kd = g.derive({key}, through_calls=False)
    mcs = [c for c in g.normal_calls() if c.resolved == MC or c.static == MC]
    gets = [c for c in common.calls_on_field(g, "index") if re.search(r"HashMap::<.*>::get(::<.*>)?$", c.static_args or "")]
    ok = bool(mcs) and bool(gets) and all(op_local(c.args[1]) in kd for c in mcs) and all(op_local(c.args[1]) in kd for c in gets)
    if ok:
        br = common.branch_on_result(g, mcs[0])
        if br is None:
            ok = False
        else:
            (sw, false_t, true_t) = br
            # on the true (might contain) side the map lookup is reached and its result is returned
            ok = any(c.bb in g.reachable_from([true_t]) and c.dst["l"] == 0 for c in gets) and not any(c.bb in g.reachable_from([false_t]) for c in gets if not g.dominates(true_t, c.bb))
    ctx.site("get_with_bloom", g.where(), ok=ok)
    if not ok:
        ctx.violation(HI + "::get_with_bloom:R-C36-d", "get_with_bloom does not return index.get(key) unchanged on the might-contain side (or tests/looks up a different key)", g.where())
    p = F.fn(HI + "::probe")
    cs = [c for c in p.normal_calls() if c.resolved == HI + "::get_with_bloom"]
    ok = bool(cs) and all(op_local(c.args[1]) in p.derive({2}, through_calls=False) for c in cs)
    ctx.site("probe", p.where(), ok=ok)
    if not ok:
        ctx.violation(HI + "::probe:R-C36-d", "probe does not look up the caller's key through get_with_bloom", p.where())
    ctx.end_rule()
