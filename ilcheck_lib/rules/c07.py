"""C07 - answer tuples are well-formed sets (retraction-awareness of result capture; layout of the in-loop aggregation)."""
import re
from ..core import CheckError, op_local, proj, place_fields
from . import common

CG = "code_generator::CodeGenerator::"
REC = CG + "execute_recursive_dd_iterative_typed"


def mname(s):
    """method name of a rendered def path (generic arguments removed)"""
    s = s or ""
    for _ in range(16):
        s2 = re.sub(r"<[^<>]*>", "", s)
        if s2 == s:
            break
        s = s2
    return s.split("::")[-1]


def closure_def_of(g, local):
    for i in range(g.n):
        for st in g.stmts(i):
            rv = st["r"]
            if st["d"]["l"] == local and not proj(st["d"]) and rv.get("k") == "agg" and rv.get("ak") == "closure":
                return rv["def"], rv
    return None, None


def run(F, ctx):
    ctx.explanation = (
        "Decides two shape clauses of result capture in the code generator. (a) Every dataflow whose iterative scope can reach a `reduce` other than distinct "
        "(a non-monotone operator inside the fixpoint: the in-loop min/max aggregation, or an aggregate inside a recursive body) emits retractions for rows that a later "
        "round supersedes; the closure that captures its results must therefore receive a consolidated collection and append only rows whose diff is positive. Dataflows "
        "whose iterative scope reaches no such reduce (distinct-only, monotone) and single-pass dataflows deliver additions only. (b) In the in-loop aggregation the rows "
        "produced by the stripped recursive body (the aggregate's input layout) reach the grouping reduce only through a map that re-lays them out from the aggregate's "
        "group columns and aggregated column - otherwise rows of two layouts are mixed and tuples of the body's arity are returned. "
        "Not decided: arity and set-ness of answers of the other operators (values of the dataflow), head constants."
    )
    # ---- a
    ctx.rule("R-C07-a", "a result capture downstream of a non-monotone fixpoint consolidates and appends only positive diffs", floor=5)
    n_nonmono = 0
    for name in sorted(F.bodies):
        if not name.startswith(CG) or "{closure" not in name:
            continue
        P = F.fn(name)
        insp = [c for c in P.normal_calls() if mname(c.static) == "inspect"]
        if not insp:
            continue
        for ic in insp:
            cap, _rv = closure_def_of(P, op_local(ic.args[1]))
            if cap is None or cap not in F.bodies:
                continue
            g = F.fn(cap)
            pushes = [c for c in g.normal_calls() if re.search(r"Vec::<value::Tuple>::push$", c.static_args or "")]
            if not pushes:
                continue
            # iterative scopes of this dataflow and what they reach
            nonmono = []
            for c in P.normal_calls():
                if mname(c.static) == "iterative":
                    it, _ = closure_def_of(P, op_local(c.args[1]))
                    if it is None:
                        raise CheckError("%s: closure of Scope::iterative not found" % name)
                    for r in sorted(F.reach([it])):
                        if r in F.bodies:
                            for x in F.fn(r).normal_calls():
                                if mname(x.static).startswith("reduce"):
                                    nonmono.append((r, x))
            if not nonmono:
                ctx.site("%s: capture of a monotone / single-pass dataflow (no reduce reachable from an iterative scope)" % name, ic.where(), ok=True)
                continue
            n_nonmono += 1
            # (1) consolidated input
            recv = op_local(ic.args[0])
            cons = [c for c in P.normal_calls() if mname(c.static) in ("consolidate", "consolidate_named", "consolidate_stream")]
            cd = set()
            for c in cons:
                cd |= P.derive({c.dst["l"]}, through_calls=True)
            # ... on every path to the capture (a consolidate on one branch only leaves the other branch raw)
            ok_cons = recv in cd and P.path(0, [ic.bb], stop={c.bb for c in cons}) is None
            # (2) positive-diff test in the capture closure
            diff_locals = set()
            for i in range(g.n):
                for st in g.stmts(i):
                    rv = st["r"]
                    pl = rv.get("p") if rv.get("k") in ("ref", "rawptr") else ((rv.get("o") or {}).get("c") or (rv.get("o") or {}).get("m") if rv.get("k") == "use" else None)
                    if pl and pl.get("l") == 2 and any(isinstance(x, dict) and x.get("f") == "2" for x in pl.get("p", [])):
                        diff_locals.add(st["d"]["l"])
            dd = g.derive(diff_locals, through_calls=True) if diff_locals else set()
            ok_sign = False
            for i in sorted(g.live_blocks()):
                t = g.term(i)
                if t.get("k") == "switch" and op_local(t.get("on")) in dd:
                    succ = g.succ(i)
                    dom = [s for s in succ if all(g.dominates(s, p.bb) for p in pushes)]
                    if dom and len(set(succ)) > len(dom):
                        ok_sign = True
            ok = ok_cons and ok_sign
            ctx.site("%s: capture downstream of a non-monotone fixpoint (reduce in %s)" % (name, nonmono[0][0].split("::")[-1] if "{closure" not in nonmono[0][0] else "the loop body"), ic.where(), ok=ok, consolidated=ok_cons, tests_diff_sign=ok_sign)
            if not ok:
                ctx.violation("%s:R-C07-a:%s" % (name, "+".join(([] if ok_cons else ["not-consolidated"]) + ([] if ok_sign else ["diff-sign-ignored"]))),
                              "results of a fixpoint that contains a min/max (or other) reduce are captured %s: a row that a later round replaces (sp(1,3,5) replaced by sp(1,3,2)) is emitted as +1 and -1 and both are appended, so the answer contains superseded rows, some of them twice" % ("without consolidation" if not ok_cons else "without looking at the diff sign"), ic.where())
    if n_nonmono < 1:
        raise CheckError("no capture downstream of a non-monotone fixpoint found (anchor moved)")
    ctx.end_rule()

    # ---- b
    ctx.rule("R-C07-b", "in-loop min/max aggregation: rows of the stripped recursive body are re-laid-out (group columns, aggregated column) before they are grouped with the base rows", floor=1)
    its = [n for n in F.with_closures(REC) if any(mname(c.static) == "set" and "Variable" in (c.static or "") for c in F.fn(n).normal_calls())]
    if len(its) != 1:
        raise CheckError("%s: iterative closure (the one that sets the Variable) not found uniquely (%d)" % (REC, len(its)))
    g = F.fn(its[0])
    gens = [c for c in g.normal_calls() if (c.resolved or c.static or "").endswith("generate_collection_tuples")]
    if not gens:
        raise CheckError("iterative closure no longer generates the recursive body")
    reds = [c for c in g.normal_calls() if mname(c.static).startswith("reduce")]
    if not reds:
        # aggregation no longer happens in the loop: nothing to lay out
        ctx.site("no in-loop aggregation", g.where(), ok=True)
        ctx.end_rule()
        return
    # locals bound from the payload of the Option returned by extract_minmax_aggregation: (.0 group columns, .1 aggregated column, .2 is_min)
    pay_ty = F.fn(CG + "extract_minmax_aggregation").ty(0)
    disc_ok = False
    gb_l, ac_l = set(), set()
    for i in range(g.n):
        for st in g.stmts(i):
            rv = st["r"]
            if rv.get("k") == "discr" and rv.get("ty") == pay_ty:
                disc_ok = True
            pl = rv.get("p") if rv.get("k") in ("ref", "rawptr") else (((rv.get("o") or {}).get("c") or (rv.get("o") or {}).get("m")) if rv.get("k") == "use" else None)
            if not pl:
                continue
            pj = pl.get("p", [])
            for k in range(len(pj) - 2):
                if isinstance(pj[k], dict) and pj[k].get("v") == "Some" and isinstance(pj[k + 1], dict) and pj[k + 1].get("a") == "std::option::Option" and isinstance(pj[k + 2], dict) and pj[k + 2].get("a") == "":
                    if g.ty(pl["l"]).replace("&", "").strip().endswith(pay_ty) or pay_ty in g.ty(pl["l"]):
                        if pj[k + 2].get("f") == "0":
                            gb_l.add(st["d"]["l"])
                        elif pj[k + 2].get("f") == "1":
                            ac_l.add(st["d"]["l"])
    if not disc_ok or not gb_l or not ac_l:
        raise CheckError("in-loop aggregation: payload (group columns, aggregated column) of %s is not destructured in the loop body" % pay_ty)
    gbd, acd = g.derive(gb_l, through_calls=True), g.derive(ac_l, through_calls=True)
    maps = []
    for c in g.normal_calls():
        if mname(c.static) == "map" and len(c.args) > 1:
            d_, rv = closure_def_of(g, op_local(c.args[1]))
            if rv is None:
                continue
            ups = [op_local(o) for o in rv["ops"]]
            if any(u in gbd for u in ups) and any(u in acd for u in ups):
                maps.append(c)
    seeds = {c.dst["l"] for c in gens}
    all_d = g.derive(seeds, through_calls=True)
    pats = [re.compile(re.escape(c.static_args)) for c in maps if c.static_args]
    cut_d = g.derive(seeds, through_calls=True, stop_calls=pats) if pats else all_d
    for r in reds:
        src = op_local(r.args[0])
        ok = bool(maps) and src in all_d and src not in cut_d
        ctx.site("grouping reduce of the in-loop aggregation", r.where(), ok=ok, relayout_maps=len(maps))
        if not ok:
            ctx.violation("%s:R-C07-b:body-rows-not-relaid-out" % its[0], "the in-loop min/max aggregation groups the rows of the stripped recursive body in the aggregate's *input* layout together with base rows in the relation's layout: `sp(X,Z,min<D>) <- sp(X,Y,D1), edge(Y,Z,D2), D = D1+D2` returns 6-column tuples and loses sp(1,3,_)", r.where())
    ctx.end_rule()
