"""C13 - acknowledged writes survive any crash and recovery always succeeds
(ordering / pairing / tolerance clauses of the persist layer)."""
import re
from ..core import CheckError, op_local, op_const, proj, place_fields
from . import common, dur

FP = "storage::persist::FilePersist"
PB = "<storage::persist::FilePersist as storage::persist::PersistBackend>::"
WAL = "storage::persist::wal::PersistWal"

ATOMIC = [
    FP + "::save_shard_meta",
    "storage::persist::write_updates_parquet",
    WAL + "::remove_shard_entries",
    "storage::metadata::KnowledgeGraphsMetadata::save",
]
APPEND_ONLY = {WAL + "::ensure_writer": "WAL is append-only (opened with append(true)); durability comes from DUR-1",
               "storage::wal::Wal::ensure_writer": "legacy append-only WAL"}
# functions that write files but are not the durable store of facts (reason each)
EXEMPT = {
    "auth::PersistedCredentials::save": "bootstrap credentials file, not facts/rules/schemas",
    "hnsw_index::HnswIndex::save": "vector index files (rebuilt from base facts); persistence of the index is C25's subject",
    "index_manager::IndexManager::save_indexes": "vector index files; C25's subject",
    "rule_catalog::RuleCatalog::save": "catalog files: decided under C16 with the same rule",
    "schema::catalog::SchemaCatalog::save": "catalog files: decided under C16 with the same rule",
}


def m_append_open(f, c):
    """an OpenOptions::open whose builder chain sets append(true)"""
    if not dur.m(c, dur.P_OPEN):
        return False
    for o in f.normal_calls():
        if o.static == dur.P_APPEND and f.dominates(o.bb, c.bb):
            return True
    return False


def run(F, ctx):
    ctx.explanation = (
        "Decides the structural clauses that every crash point must pass through: (DUR-1) in immediate mode an append reaches BufWriter::flush and "
        "File::sync_all before its success return; (DUR-2) every function that overwrites a durable file does write-temp -> sync -> rename -> directory sync, "
        "never create_new on the temp file, never a write after the rename, and the set of file-writing functions is the enumerated one; (DUR-3) every unlink on a "
        "success path is followed by a directory sync; (DUR-4) the step order of flush / compact / delete_shard / recovery; (DUR-5) WAL replay cannot fail on a "
        "per-line decoding error. Not decided: crash points inside library calls, the bytes written."
    )
    # ---- DUR-1
    ctx.rule("R-DUR-1", "immediate-mode append: flush + sync_all before the success return", floor=4)
    ab = F.fn(WAL + "::append_batch")
    cs = ab.calls_to(WAL + "::append_batch_inner")
    ok = bool(cs) and all(op_const(c.args[3]) is not None and op_const(c.args[3])[1] == "1" for c in cs)
    ctx.site("append_batch passes flush=true", ab.where(), ok=ok)
    if not ok:
        ctx.violation(WAL + "::append_batch:R-DUR-1:flush-flag", "append_batch no longer asks append_batch_inner to flush+sync: an acknowledged immediate-mode write may only be in the page cache", ab.where())
    for nm, flush_param in ((WAL + "::append_batch_inner", 4), (WAL + "::append_inner", 4)):
        f = F.fn(nm)
        fl = f.derive({flush_param}, through_calls=False)
        sw = None
        for i in sorted(f.live_blocks()):
            t = f.term(i)
            if t["k"] == "switch" and op_local(t["on"]) in fl:
                sw = i
                break
        if sw is None:
            ctx.site("%s branches on flush" % nm, f.where(), ok=False)
            ctx.violation("%s:R-DUR-1:no-flush-branch" % nm, "%s no longer branches on its flush parameter" % nm, f.where())
            continue
        t = f.term(sw)
        true_t = t["else"]
        flushes = [c for c in f.normal_calls() if re.search(r"BufWriter<std::fs::File> as std::io::Write>::flush$|BufWriter::<.*>::flush$", c.static_args or "")]
        syncs = [c for c in f.normal_calls() if dur.m(c, dur.P_SYNC)]
        # angelic guard g1: `if let Some(writer) = self.writer` - the None side has nothing to sync
        angelic = []
        for (bb, adt, pl, mm, other) in f.enum_switches("std::option::Option"):
            if "Some" in mm and any(fd == "writer" for (_a, fd) in place_fields(pl)):
                angelic.append(mm.get("None", other))
                ctx.angelic_guard("if let Some(writer) = self.writer (None side has no open file to sync)", f.where(bb))
        okp, wit = dur.must_pass(f, [c.bb for c in syncs], extra_stop=angelic, start=true_t)
        ord_ok = bool(flushes) and bool(syncs) and all(any(f.dominates(fc.bb, s.bb) for fc in flushes) for s in syncs)
        ok = okp and ord_ok
        ctx.site("%s: flush ≺ sync_all ≺ return on the flush side" % nm, f.where(sw), ok=ok, flushes=len(flushes), syncs=len(syncs))
        if not ok:
            ctx.violation("%s:R-DUR-1:sync-before-ack" % nm, "on the flush=true side of %s a success return is reachable without BufWriter::flush followed by File::sync_all" % nm.split("::")[-1], f.where(sw), detail="witness blocks %s" % wit)
    ap = F.fn(PB + "append")
    okm = False
    for (bb, adt, pl, mm, other) in ap.enum_switches("config::DurabilityMode") + ap.enum_switches("storage::persist::DurabilityMode"):
        if "Immediate" in mm:
            region = ap.arm_region(list(mm.values()) + [other], mm["Immediate"])
            cs = [c for c in ap.normal_calls() if c.bb in region and c.resolved == WAL + "::append_batch"]
            buf = [c for c in ap.normal_calls() if c.bb in region and (c.resolved or "").endswith("append_batch_buffered")]
            okm = bool(cs) and not buf
    if not okm:
        # the enum may live elsewhere: find by variant name
        for (bb, adt, pl, mm, other) in ap.enum_switches():
            if "Immediate" in mm and not okm:
                region = ap.arm_region(list(mm.values()) + [other], mm["Immediate"])
                cs = [c for c in ap.normal_calls() if c.bb in region and c.resolved == WAL + "::append_batch"]
                buf = [c for c in ap.normal_calls() if c.bb in region and (c.resolved or "").endswith("append_batch_buffered")]
                okm = bool(cs) and not buf
    ctx.site("FilePersist::append Immediate arm uses the syncing append", ap.where(), ok=okm)
    if not okm:
        ctx.violation(PB + "append:R-DUR-1:immediate-arm", "the Immediate durability arm of FilePersist::append does not call the syncing WAL append", ap.where())
    ctx.end_rule()

    # ---- DUR-2
    ctx.rule("R-DUR-2", "atomic replace discipline at every durable file writer; the set of writers is the enumerated one", floor=len(ATOMIC))
    for nm in ATOMIC:
        dur.check_atomic_replace(F, ctx, nm, "C13")
    # discovery: any other function of the crate that opens a file for writing
    pat = re.compile(r"^std::fs::(write|File::create|OpenOptions::open)(::<.*>)?$")
    found = {}
    for c in F.call_sites_of(pat):
        found.setdefault(c.fn.name, c)
    for nm, c in sorted(found.items()):
        root = nm.split("::{closure")[0]
        if root in ATOMIC:
            continue
        f = F.fn(nm)
        wo = dur.write_opens(f)
        if not wo:
            continue
        if root in APPEND_ONLY:
            app = all(w[2] for w in wo)
            ctx.site("append-only writer %s" % root, c.where(), ok=app)
            if not app:
                ctx.violation("%s:R-DUR-2:append-only-broken" % root, "%s no longer opens the log with append(true)" % root, c.where())
            continue
        if root in EXEMPT:
            ctx.site("file writer %s (exempt)" % root, c.where(), ok=True)
            ctx.exempt(root, EXEMPT[root])
            continue
        mod = root.rsplit("::", 1)[0]
        anc = set()
        work = [root]
        while work:
            x = work.pop()
            for y in F.callers(x):
                if y not in anc:
                    anc.add(y)
                    work.append(y)
        if not any(not a.startswith(mod + "::") for a in anc):
            ctx.site("file writer %s (no caller outside its module)" % root, c.where(), ok=True)
            ctx.exempt(root, "library helper never called from outside its own module (not on any engine path)")
            continue
        ctx.site("unlisted file writer %s" % root, c.where(), ok=False)
        ctx.violation("%s:R-DUR-2:unlisted-writer" % root, "%s opens a file for writing but is not one of the enumerated durable writers (atomic-replace or append-only): a new in-place writer of store files?" % root, c.where())
    ctx.end_rule()

    # ---- DUR-3
    ctx.rule("R-DUR-3", "every unlink of a store file on a success path can be followed by a directory sync", floor=4)
    n = 0
    n += dur.check_unlink_sync(F, ctx, PB + "compact")
    n += dur.check_unlink_sync(F, ctx, PB + "delete_shard")
    n += dur.check_unlink_sync(F, ctx, WAL + "::remove_shard_entries")
    n += dur.check_unlink_sync(F, ctx, FP + "::cleanup_orphaned_batches")
    n += dur.check_unlink_sync(F, ctx, WAL + "::cleanup_archives", exempt_reason="removes garbage (.archived / .new leftovers); a resurrected garbage file is removed again at the next start")
    ctx.end_rule()

    # ---- DUR-4
    ctx.rule("R-DUR-4", "step order of flush / compact / delete_shard / recovery", floor=9)

    def calls(f, *names):
        out = []
        for c in f.normal_calls():
            r = c.resolved or ""
            if any(r == n_ or r.endswith("::" + n_) for n_ in names):
                out.append(c)
        return out

    def order(fname, steps, mode="dom"):
        f = F.fn(fname)
        for (a, b) in zip(steps, steps[1:]):
            ca = calls(f, *a) if isinstance(a, tuple) else calls(f, a)
            cb = calls(f, *b) if isinstance(b, tuple) else calls(f, b)
            if not ca or not cb:
                raise CheckError("%s: step %s or %s not found" % (fname, a, b))
            ok = dur.ordered_dom(f, ca, cb) if mode == "dom" else dur.never_after(f, ca, cb)
            ctx.site("%s: %s ≺ %s" % (fname.split("::")[-1], a, b), cb[0].where(), ok=ok)
            if not ok:
                ctx.violation("%s:R-DUR-4:%s-before-%s" % (fname, b if isinstance(b, str) else b[0], a if isinstance(a, str) else a[0]),
                              "%s: `%s` is no longer ordered before `%s`; a crash between the two steps loses or resurrects data" % (fname.split("::")[-1], a, b), cb[0].where())

    order(PB + "flush", ["write_batch", "save_shard_meta", "remove_shard_entries"])
    order(PB + "compact", ["flush", "write_batch"])
    order(PB + "compact", ["write_batch", "save_shard_meta"], mode="never_after")  # write_batch is skipped for an empty result
    fcomp = F.fn(PB + "compact")
    rm = [c for c in fcomp.normal_calls() if dur.m(c, dur.P_REMOVE)]
    sm = calls(fcomp, "save_shard_meta")
    ok = dur.ordered_dom(fcomp, sm, rm)
    ctx.site("compact: save_shard_meta ≺ remove_file(old batches)", fcomp.where(), ok=ok)
    if not ok:
        ctx.violation(PB + "compact:R-DUR-4:unlink-before-meta", "compact removes old batch files before the metadata that stops referencing them is durable", fcomp.where())
    fd = F.fn(PB + "delete_shard")
    rms = [c for c in fd.normal_calls() if dur.m(c, dur.P_REMOVE)]
    rse = calls(fd, "remove_shard_entries")
    first = [c for c in rms if not any(fd.dominates(r.bb, c.bb) for r in rse)]
    last = [c for c in rms if any(fd.dominates(r.bb, c.bb) for r in rse)]
    ok = bool(first) and bool(last) and bool(rse) and dur.never_after(fd, first, rse)
    ctx.site("delete_shard: batch unlink ≺ WAL filter ≺ meta unlink", fd.where(), ok=ok)
    if not ok:
        ctx.violation(PB + "delete_shard:R-DUR-4:order", "delete_shard no longer removes batch files, then the shard's WAL entries, then the metadata file in that order", fd.where())
    order(FP + "::new", ["load_shards", "cleanup_orphaned_batches", "replay_wal"])
    fn = F.fn(FP + "::new")
    rw = calls(fn, "replay_wal")
    fl = calls(fn, "flush")
    ca = calls(fn, "cleanup_archives")
    ok = dur.ordered_dom(fn, rw, fl) and dur.ordered_dom(fn, rw, ca) and dur.never_after(fn, fl, ca)
    ctx.site("new: replay_wal ≺ drain flush ≺ cleanup_archives", fn.where(), ok=ok)
    if not ok:
        ctx.violation(FP + "::new:R-DUR-4:recovery-order", "recovery no longer replays the WAL, drains it by flushing, then cleans archives in that order", fn.where())
    ctx.end_rule()

    # ---- DUR-5
    ctx.rule("R-DUR-5", "WAL replay: no per-line decoding failure reaches read_all's error return", floor=1)
    ra = F.fn(WAL + "::read_all")
    loops = dur.loop_blocks(ra)
    rets, eb = ra.success_returns()
    bad = []
    for e in eb:
        # is the error block reachable from a loop block?
        for lb in loops:
            if e in ra.reachable_from([lb]):
                bad.append(e)
                break
    ctx.site("read_all error exits vs line loops", ra.where(), ok=not bad, loop_blocks=len(loops), error_exits=len(eb))
    if bad:
        ctx.violation(WAL + "::read_all:R-DUR-5:error-from-line-loop", "an error raised while iterating WAL lines (e.g. invalid UTF-8 of a torn tail) propagates out of read_all: FilePersist::new fails and the store cannot be reopened", ra.where(bad[0]))
    if not loops:
        raise CheckError("read_all has no loop (anchor changed)")
    ctx.end_rule()

    # ---- DUR-6
    ctx.rule("R-DUR-6", "WAL replay: every entry read from the log is put back into its shard's buffer (no data-dependent skip)", floor=1)
    rw = F.fn(FP + "::replay_wal")
    loops = dur.loop_blocks(rw)
    pushes = [c for c in rw.normal_calls() if c.bb in loops and re.search(r"Vec::<storage::persist::batch::Update>::push$", c.static_args or "")]
    nx = [c for c in rw.normal_calls() if c.bb in loops and re.search(r"Iterator>::next$", c.static_args or "")]
    if not pushes or not nx:
        raise CheckError("replay_wal: loop over entries / buffer push not found (anchor moved)")
    ok = True
    wit = None
    for n_ in nx:
        res = rw.derive({n_.dst["l"]}, through_calls=False)
        for (sb, sadt, spl, smm, sother) in rw.enum_switches("std::option::Option"):
            if spl["l"] in res and "Some" in smm:
                leak = rw.path(smm["Some"], [n_.bb], stop={c.bb for c in pushes})
                if leak is not None:
                    ok = False
                    wit = leak
    ctx.site("replay_wal: every iteration reaches the buffer push", rw.where(), ok=ok)
    if not ok:
        ctx.violation(FP + "::replay_wal:R-DUR-6:entry-skipped", "replay_wal can skip an entry it read from the log (an iteration reaches the next entry without pushing the update into the shard's buffer): an acknowledged write that is only in the WAL - e.g. one that arrived, out of timestamp order, after a flush - is dropped at recovery", rw.where(wit[0] if wit else None), detail="witness blocks %s" % wit)
    ctx.end_rule()

    # ---- DUR-7
    ctx.rule("R-DUR-7", "WAL append after recovery: the writer looks at the last byte of the existing log and starts on a fresh line when the log does not end with a newline", floor=1)
    ew = F.fn(WAL + "::ensure_writer")
    opens = [c for c in ew.normal_calls() if m_append_open(ew, c)]
    if not opens:
        raise CheckError("ensure_writer: append-mode open of the log not found (anchor moved)")
    seeks = [c for c in ew.normal_calls() if re.search(r"std::io::Seek>::seek$", c.static_args or "")]
    reads = [c for c in ew.normal_calls() if re.search(r"std::io::Read>::(read_exact|read|read_to_end)$", c.static_args or "") or re.search(r"^std::fs::read(::<.*>)?$", c.static_args or "")]
    writes = [c for c in ew.normal_calls() if re.search(r"std::io::Write>::write_all$", c.static_args or "")]
    # the newline write is conditional on what was read
    rd = set()
    for c in reads:
        rd |= ew.derive({op_local(a) for a in c.args if op_local(a) is not None} | {c.dst["l"]}, through_calls=True)
    conditional = False
    for w in writes:
        for i in sorted(ew.live_blocks()):
            t = ew.term(i)
            if t.get("k") != "switch":
                continue
            sc = ew.succ(i)
            dom = [x for x in sc if ew.dominates(x, w.bb)]
            if dom and len(dom) < len(set(sc)):
                conditional = True
    ok = bool(reads) and bool(writes) and conditional
    ctx.site("ensure_writer: tail of the existing log inspected, newline written when it is torn", ew.where(), ok=ok, tail_reads=len(reads), seeks=len(seeks), newline_writes=len(writes))
    if not ok:
        ctx.violation(WAL + "::ensure_writer:R-DUR-7:append-glued-to-torn-tail", "the log is opened for append without looking at its last byte: when a crash left a torn last line without a newline, the next acknowledged entry is written onto the same line, fails the checksum with it at the following recovery and is lost", ew.where())
    ctx.end_rule()

    # ---- DUR-8
    ctx.rule("R-DUR-8", "WAL rewrite: the writer's buffer is written out before the log file is read and replaced", floor=1)
    rs = F.fn(WAL + "::remove_shard_entries")
    reads = [c for c in rs.normal_calls() if (c.resolved or "") == WAL + "::read_all" or re.search(r"^std::fs::(read|read_to_string)|File::open", c.static or "")]
    reads = [c for c in reads if (c.resolved or "") == WAL + "::read_all"] or reads
    flushes = [c for c in rs.normal_calls() if re.search(r"BufWriter<std::fs::File> as std::io::Write>::flush$", c.static_args or "")]
    renames = [c for c in rs.normal_calls() if dur.m(c, dur.P_RENAME)]
    if not reads or not renames:
        raise CheckError("remove_shard_entries: read of the log / rename not found (anchor moved)")
    # a flush of the *live* writer (the one stored in self.writer), before the first read; the None side of `if let Some(writer)` is the no-writer case
    wl = set()
    for c in common.calls_on_field(rs, "writer"):
        wl |= rs.derive({c.dst["l"]}, through_calls=True) | {c.dst["l"]}
    live_flush = []
    for c in flushes:
        a0 = op_local(c.args[0])
        if a0 in wl or any(fd == "writer" for o in (common.origins(rs, a0) | {a0}) for r_ in [common.ref_field_of(rs, o)] if r_ for fd in [r_[1]]):
            live_flush.append(c)
    none_t = []
    for (bb, adt, pl, mm, other) in rs.enum_switches("std::option::Option"):
        if "Some" in mm and any(rs.dominates(mm["Some"], c.bb) for c in live_flush):
            none_t.append(mm.get("None", other))
    ok = bool(live_flush) and all(rs.path(0, [r_.bb], stop={c.bb for c in live_flush} | set(none_t)) is None for r_ in reads)
    ctx.site("remove_shard_entries: live writer flushed before the log is read", rs.where(), ok=ok, flushes_of_live_writer=len(live_flush), reads=len(reads))
    if not ok:
        ctx.violation(WAL + "::remove_shard_entries:R-DUR-8:buffered-entries-dropped", "remove_shard_entries reads the log file while entries of other shards may still sit in the writer's buffer (batched durability), then replaces the file: those entries - acknowledged, even synced later - are gone after a crash (`append(db:b,x) append(db:a,y) flush(db:b) sync() crash` recovers db:a empty)", rs.where())
    ctx.end_rule()
