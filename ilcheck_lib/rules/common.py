"""Shared rule fragments."""
import re
from ..core import Call, op_place, op_local, proj, place_fields

_FLOAT = re.compile(r"\bf(32|64)\b")
_PARTIAL_TRAIT = re.compile(r"^<(.+) as std::cmp::(PartialEq|PartialOrd)(<.*>)?>::(eq|ne|partial_cmp|lt|le|gt|ge)$")
_ITER_CMP = re.compile(r"^<(.+) as std::iter::Iterator>::(eq|ne|partial_cmp|lt|le|gt|ge|eq_by|partial_cmp_by)(::<.*>)?$")


def float_partial_ops(f):
    """[(line, description)] of IEEE/partial float comparisons in body f (type-resolved):
    primitive ==,!=,<,.. on f32/f64, PartialEq/PartialOrd calls whose Self type contains a
    float (f64, &f64, Arc<Vec<f32>>, [f32], Option<f64>...), Iterator::eq/partial_cmp over floats."""
    out = []
    live = f.live_blocks_all()
    for i in range(f.n):
        if i not in live:
            continue
        for st in f.stmts(i):
            rv = st["r"]
            if rv.get("k") == "bin" and rv["op"] in ("Eq", "Ne", "Lt", "Le", "Gt", "Ge") and rv.get("aty") in ("f32", "f64"):
                out.append((st["ln"], "%s on %s" % (rv["op"], rv["aty"])))
        t = f.term(i)
        if t["k"] == "call" and "f" in t:
            da = t["f"].get("da", "")
            m = _PARTIAL_TRAIT.match(da)
            if m and _FLOAT.search(m.group(1)):
                out.append((t.get("fl") or t.get("ln"), "%s::%s on %s" % (m.group(2), m.group(4), m.group(1))))
                continue
            m = _ITER_CMP.match(da)
            if m and _FLOAT.search(m.group(1)):
                out.append((t.get("fl") or t.get("ln"), "Iterator::%s over %s" % (m.group(2), m.group(1))))
    return out


PERSIST_SINKS_EXACT = [
    # the durable write surface of the engine (trait methods + catalog/metadata saves)
]


def fmt_path(names):
    return " -> ".join(names)


def ref_field_of(f, local):
    """if `local` is assigned `&[mut] <place>` whose projection ends in a field, return (adt, field)"""
    for i in range(f.n):
        for st in f.stmts(i):
            if st["d"]["l"] == local and not proj(st["d"]) and st["r"].get("k") in ("ref", "rawptr"):
                fs = place_fields(st["r"]["p"])
                if fs:
                    return fs[-1]
    return None


def calls_on_field(f, field, adt=None, callee_pat=None):
    """calls whose first argument is a borrow of `<..>.field` (e.g. self.tombstones.write())"""
    out = []
    for c in f.normal_calls():
        if not c.args:
            continue
        if callee_pat is not None and not c.matches([callee_pat]):
            continue
        l = op_local(c.args[0])
        if l is None:
            continue
        # direct place argument (copy/move of a field) or a ref local
        p = op_place(c.args[0])
        fs = place_fields(p)
        if not fs:
            r = ref_field_of(f, l)
            fs = [r] if r else []
        if fs and fs[-1][1] == field and (adt is None or fs[-1][0] == adt):
            out.append(c)
    return out


def branch_on_result(f, call):
    """follow the call's continuation to the switch on its (bool) result.
    returns (switch_bb, false_target, true_target) or None"""
    if call.target is None:
        return None
    tracked = {call.dst["l"]}
    negated = False
    bb = call.target
    for _ in range(6):
        for st in f.stmts(bb):
            rv = st["r"]
            if rv.get("k") == "use" and op_local(rv["o"]) in tracked and not proj(st["d"]):
                tracked.add(st["d"]["l"])
            elif rv.get("k") == "un" and rv.get("op") == "Not" and op_local(rv["o"]) in tracked:
                tracked = {st["d"]["l"]}
                negated = not negated
        t = f.term(bb)
        if t["k"] == "switch" and op_local(t["on"]) in tracked:
            false_t = None
            for v, tg in t["tg"]:
                if v == "0":
                    false_t = tg
            true_t = t["else"]
            if false_t is None:
                return None
            if negated:
                false_t, true_t = true_t, false_t
            return (bb, false_t, true_t)
        if t["k"] == "goto":
            bb = t["to"]
            continue
        return None
    return None


def origins(f, local, depth=8):
    """locals that `local` is a copy / move / (re)borrow of, following assignment chains backwards
    (includes `local` itself)"""
    seen = {local}
    work = [(local, 0)]
    defs = getattr(f, "_defs", None)
    if defs is None:
        defs = {}
        for i in range(f.n):
            for st in f.stmts(i):
                if not proj(st["d"]):
                    defs.setdefault(st["d"]["l"], []).append(st["r"])
        f._defs = defs
    while work:
        l, d = work.pop()
        if d >= depth:
            continue
        for rv in defs.get(l, []):
            src = None
            if rv.get("k") in ("ref", "rawptr"):
                src = rv["p"]["l"]
            elif rv.get("k") in ("use", "cast"):
                p = op_place(rv["o"])
                src = p["l"] if p else None
            if src is not None and src not in seen:
                seen.add(src)
                work.append((src, d + 1))
    return seen


_LOCK_ACQ = re.compile(r"^parking_lot::lock_api::(RwLock::<.*>::(read|write|upgradable_read)|Mutex::<.*>::lock)$|^std::sync::(RwLock|Mutex)::<.*>::(read|write|lock)$")


def lock_acquisitions(f, field=None):
    """lock acquisition calls in f: [(call, field_name or None, mode)]"""
    out = []
    for c in f.normal_calls():
        da = c.static_args or ""
        m = _LOCK_ACQ.match(da)
        if not m:
            continue
        mode = [g for g in m.groups() if g in ("read", "write", "upgradable_read", "lock")]
        mode = mode[0] if mode else "lock"
        fld = None
        if c.args:
            p = op_place(c.args[0])
            fs = place_fields(p) if p else []
            if not fs and p is not None:
                for l in origins(f, p["l"], depth=4):
                    r = ref_field_of(f, l)
                    if r:
                        fs = [r]
                        break
            if fs:
                fld = fs[-1][1]
        if field is None or fld == field:
            out.append((c, fld, mode))
    return out


def guard_region(f, acq_call):
    """blocks executed while the guard returned by `acq_call` is alive:
    forward from the call's continuation, stopping at blocks that drop the guard (inclusive)"""
    if acq_call.target is None:
        return set(), set()
    aliases = {acq_call.dst["l"]}
    changed = True
    while changed:
        changed = False
        for i in range(f.n):
            for st in f.stmts(i):
                rv = st["r"]
                if rv.get("k") == "use" and "m" in rv["o"] and not proj(rv["o"]["m"]) and rv["o"]["m"]["l"] in aliases and not proj(st["d"]):
                    if st["d"]["l"] not in aliases:
                        aliases.add(st["d"]["l"])
                        changed = True
    drops = set()
    for i in range(f.n):
        t = f.term(i)
        if t["k"] == "drop" and not proj(t["p"]) and t["p"]["l"] in aliases:
            drops.add(i)
        elif t["k"] == "call" and "f" in t and t["f"]["d"] == "std::mem::drop":
            l = op_local(t["args"][0]) if t["args"] else None
            if l in aliases:
                drops.add(i)
    # blocks strictly after a drop are outside; the drop block itself is the last inside
    region = set()
    work = [acq_call.target]
    while work:
        b = work.pop()
        if b in region:
            continue
        region.add(b)
        if b in drops:
            continue
        for s in f.succ(b):
            if s not in region:
                work.append(s)
    return region, drops


def call_in_region(f, call, region, drops):
    """a call terminator is 'under the lock' if its block is in the region and the block is not one that
    drops the guard by a drop-terminator (a call block cannot also be a drop block, except mem::drop itself)"""
    return call.bb in region and call.bb not in drops


def err_propagated(f, call):
    """the Result returned by `call` reaches a `?` (Try::branch) whose Break arm can only leave through error returns,
    or is returned directly"""
    d = f.derive({call.dst["l"]}, through_calls=True)
    rets, eb = f.success_returns()
    for c in f.normal_calls():
        if (c.static or "") == "std::ops::Try::branch" and op_local(c.args[0]) in d and f.dominates(call.bb, c.bb):
            res = f.derive({c.dst["l"]}, through_calls=False)
            for (bb, adt, pl, mm, other) in f.enum_switches("std::ops::ControlFlow"):
                if pl["l"] in res and "Break" in mm:
                    reach = f.reachable_from([mm["Break"]], stop=eb)
                    if not any(r in reach for r in rets):
                        return True, mm.get("Continue")
    if 0 in d:
        return True, None
    return False, None




def ok_blocks(f):
    """blocks that build the function's success value `Ok(..)` (into the return place or a local moved there)"""
    out = []
    for i in sorted(f.live_blocks()):
        for st in f.stmts(i):
            rv = st["r"]
            if rv.get("k") == "agg" and rv.get("adt") == "std::result::Result" and rv.get("var") == "Ok":
                out.append(i)
    return out
