"""Shared rule fragments."""
import re
from ..core import Call, op_place, op_local, proj, place_fields

_FLOAT = re.compile(r"\bf(32|64)\b")
_PARTIAL_TRAIT = re.compile(r"^<(.+) as std::cmp::(PartialEq|PartialOrd)(<.*>)?>::(eq|ne|partial_cmp|lt|le|gt|ge)$")
_ITER_CMP = re.compile(r"^<(.+) as std::iter::Iterator>::(eq|ne|partial_cmp|lt|le|gt|ge|eq_by|partial_cmp_by)(::<.*>)?$")


def float_partial_ops(f):
    """[(line, description)] of IEEE/partial float comparisons in body f (type-resolved):
    primitive ==,!=,<,.. on f32/f64, PartialEq/PartialOrd calls whose Self type contains a
    float (f64, &f64, Arc<Vec<f32>>, [f32], Option<f64>...), Iterator::eq/partial_cmp over floats."""
    out = []
    live = f.live_blocks_all()
    for i in range(f.n):
        if i not in live:
            continue
        for st in f.stmts(i):
            rv = st["r"]
            if rv.get("k") == "bin" and rv["op"] in ("Eq", "Ne", "Lt", "Le", "Gt", "Ge") and rv.get("aty") in ("f32", "f64"):
                out.append((st["ln"], "%s on %s" % (rv["op"], rv["aty"])))
        t = f.term(i)
        if t["k"] == "call" and "f" in t:
            da = t["f"].get("da", "")
            m = _PARTIAL_TRAIT.match(da)
            if m and _FLOAT.search(m.group(1)):
                out.append((t.get("fl") or t.get("ln"), "%s::%s on %s" % (m.group(2), m.group(4), m.group(1))))
                continue
            m = _ITER_CMP.match(da)
            if m and _FLOAT.search(m.group(1)):
                out.append((t.get("fl") or t.get("ln"), "Iterator::%s over %s" % (m.group(2), m.group(1))))
    return out


PERSIST_SINKS_EXACT = [
    # the durable write surface of the engine (trait methods + catalog/metadata saves)
]


def fmt_path(names):
    return " -> ".join(names)
