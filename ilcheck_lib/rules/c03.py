"""C03 - worker count never changes answers (partition-safety classification clause)."""
import re
from ..core import CheckError, syn_walk, pat_paths, last_seg, op_local

EXEC = "code_generator::CodeGenerator::execute_with_config"
PART = "code_generator::CodeGenerator::partition_data_for_worker"
IR = "ir::IRNode"

# oracle: does the operator distribute over a disjoint (hash) partition of every input relation?
#   unsafe  : combines tuples that may sit in different partitions / needs all tuples of a group
#   through : distributes over union of partitions when its input does (recurse into children)
#   leaf    : reads one relation (or nothing)
ORACLE = {
    "Scan": ("leaf", "reads one base relation; union of partitions = relation"),
    "HnswScan": ("leaf", "resolved outside the dataflow before partitioning; the DD leaf is empty"),
    "Map": ("through", "per-tuple projection"),
    "Filter": ("through", "per-tuple predicate"),
    "Compute": ("through", "per-tuple computed columns"),
    "FlatMap": ("through", "per-tuple projection + filter"),
    "Distinct": ("through", "set semantics; the merge is a set union"),
    "Union": ("through", "union distributes over union"),
    "Join": ("unsafe", "matching tuples may hash to different partitions"),
    "JoinFlatMap": ("unsafe", "join fused with projection"),
    "Antijoin": ("unsafe", "a tuple absent from one partition may exist in another"),
    "Aggregate": ("unsafe", "per-group value needs every tuple of the group"),
}


def run(F, ctx):
    ctx.explanation = (
        "The only thing between a query and hash-partitioned per-worker evaluation is one guard. Decides: (a) the guard classifies every "
        "IR operator that does not distribute over a disjoint partition of its inputs as unsafe, recurses through the others, has no default arm, "
        "and its result dominates the partitioning call; (b) no per-partition error is turned into an empty result; (c) nothing else calls the "
        "partitioner; (d) partition results are merged through a set. Not decided: value-level equality of answers for the safe operators."
    )
    f = F.fn(EXEC)
    F.fn(PART)
    variants = F.variants(IR)

    # locate the guard: the bool-returning crate fn whose result is switched on and whose true edge avoids the partition call
    part_calls = [c for n in F.with_closures(EXEC) for c in F.fn(n).calls_to(PART)]
    if not part_calls:
        raise CheckError("execute_with_config no longer calls partition_data_for_worker")
    guard = None
    guard_call = None
    for c in f.normal_calls():
        r = c.resolved
        if r in F.bodies and f.ty(c.dst["l"]) == "bool" and r != EXEC:
            # the switch on its result
            t = f.term(c.target) if c.target is not None else None
            gf = F.fn(r)
            if any(s[1] == IR for s in gf.enum_switches(IR)):
                guard, guard_call = r, c
    if guard is None:
        raise CheckError("no partition-safety guard (bool fn over IRNode) found in execute_with_config")

    # ---- a: classification table
    ctx.rule("R-C03-a", "partition-safety guard classifies all %d IRNode variants per the oracle table; guard dominates partitioning" % len(variants), floor=len(variants))
    gshort = guard.split("::")[-1]
    gs = F.syn_for(F.fn(guard))
    ms = [n for n in syn_walk(gs["body"]) if n.get("e") == "match"]
    if not ms:
        raise CheckError("guard %s has no match" % guard)
    table = {}
    for arm in ms[0]["arms"]:
        ps, w = pat_paths(arm["pat"])
        b = arm["body"]
        if b.get("e") == "lit" and b.get("t") == "bool":
            cls = "unsafe" if b["v"] == "true" else "safe-const"
        else:
            # recursion into children: the body mentions the guard itself
            names = [n.get("p", "") for n in syn_walk(b) if n.get("e") == "path"]
            cls = "through" if any(last_seg(p) == gshort for p in names) else "other"
        if w and not ps:
            table["_"] = (cls, arm["ln"])
        if arm.get("guard"):
            cls = "guarded:" + cls
        for p in ps:
            table.setdefault(last_seg(p), (cls, arm["ln"]))
    gfile = F.fn(guard).file
    for v in variants:
        if v not in ORACLE:
            ctx.site("IRNode::%s" % v, gfile, ok=False)
            ctx.violation("%s:R-C03-a:%s:unknown-operator" % (guard, v), "IRNode::%s is not in the checker's partition-safety oracle: classify it (does it distribute over a disjoint partition of its inputs?)" % v, "%s:%s" % (gfile, gs["line"]))
            continue
        want, why = ORACLE[v]
        ent = table.get(v) or table.get("_")
        if ent is None:
            raise CheckError("guard has no arm for IRNode::%s" % v)
        cls, ln = ent
        where = "%s:%s" % (gfile, ln)
        if v not in table:
            ctx.site("IRNode::%s via default arm" % v, where, ok=False)
            ctx.violation("%s:R-C03-a:%s:default-arm" % (guard, v), "IRNode::%s is classified by a default arm of the partition-safety guard" % v, where)
            continue
        if want == "unsafe":
            ok = cls == "unsafe"
        elif want == "through":
            ok = cls in ("through", "unsafe")   # over-conservative is fine
        else:
            ok = cls in ("safe-const", "unsafe", "through")
        ctx.site("IRNode::%s classified %s (oracle: %s)" % (v, cls, want), where, ok=ok, reason=why)
        if not ok:
            ctx.violation("%s:R-C03-a:%s:classified-%s" % (guard, v, cls), "IRNode::%s is classified `%s` by the partition-safety guard but it is %s: %s; per-partition evaluation changes the answer when num_workers > 1" % (v, cls, want, why), where)
    # cross-check with MIR: the guard's enum switch has no reachable otherwise and covers all variants
    gsw = [s for s in F.fn(guard).enum_switches(IR)]
    for (bb, adt, pl, m, other) in gsw:
        missing = [v for v in variants if v not in m]
        if missing and F.fn(guard).term(other)["k"] != "unreachable":
            ctx.violation("%s:R-C03-a:mir-default" % guard, "MIR of the guard routes %s through a default edge" % missing, F.fn(guard).where(bb))
    # dominance: guard call dominates every partition call, and the true edge of its switch avoids them
    sw_bb = guard_call.target
    ok_dom = all((c.fn.name != EXEC) or f.dominates(guard_call.bb, c.bb) for c in part_calls)
    # closure-created partition calls: the closure aggregate must be dominated too
    for i in range(f.n):
        for st in f.stmts(i):
            rv = st["r"]
            if rv.get("k") == "agg" and rv.get("ak") == "closure" and rv["def"] in [c.fn.name for c in part_calls]:
                ok_dom = ok_dom and f.dominates(guard_call.bb, i)
    t = f.term(sw_bb)
    true_side_clean = False
    if t["k"] == "switch":
        # switch on the bool: value 0 -> false target; otherwise -> true target
        false_t = [tg for v, tg in t["tg"] if v == "0"]
        true_t = t["else"]
        reach_true = f.reachable_from([true_t])
        # the true side must not reach the partition call or the closure that contains it
        bad = [c for c in part_calls if c.fn.name == EXEC and c.bb in reach_true]
        for i in reach_true:
            for st in f.stmts(i):
                rv = st["r"]
                if rv.get("k") == "agg" and rv.get("ak") == "closure" and rv["def"] in [c.fn.name for c in part_calls]:
                    bad.append(rv["def"])
        true_side_clean = not bad
    ctx.site("guard %s dominates partitioning; unsafe side does not partition" % guard, guard_call.where(), ok=ok_dom and true_side_clean)
    if not (ok_dom and true_side_clean):
        ctx.violation("%s:R-C03-a:guard-not-dominating" % EXEC, "the partition-safety guard no longer dominates the call to partition_data_for_worker (or its unsafe side still partitions)", guard_call.where())
    ctx.end_rule()

    # ---- b: no swallowed partition error
    ctx.rule("R-C03-b", "no per-partition Result is defaulted (unwrap_or*/ok/unwrap_or_default) in the partitioned execution path", floor=1)
    swallow = re.compile(r"^std::result::Result::<.*>::(unwrap_or_default|unwrap_or|unwrap_or_else|ok|unwrap_or_default)\b")
    n_exec = 0
    for n in F.with_closures(EXEC):
        g = F.fn(n)
        for c in g.normal_calls():
            if (c.resolved or "").endswith("generate_and_execute_tuples"):
                n_exec += 1
            da = c.static_args or ""
            if swallow.match(da) and "Vec<value::Tuple>" in da:
                ctx.site("swallowed partition result in %s" % n, c.where(), ok=False)
                ctx.violation("%s:R-C03-b:%s" % (n, da.split("::")[-1]), "a per-partition execution error is replaced by an empty/default result (%s): a failed partition silently drops its tuples, while the single-worker path fails the query" % da.split("::")[-1], c.where())
    ctx.site("per-partition executions analysed", f.where(), ok=True, executions=n_exec)
    ctx.end_rule()

    # ---- c: who may call the partitioner
    ctx.rule("R-C03-c", "partition_data_for_worker is called only under the guard (from execute_with_config)", floor=1)
    allowed = set(F.with_closures(EXEC))
    for c in F.call_sites_of(PART):
        ok = c.fn.name in allowed
        ctx.site("call from %s" % c.fn.name, c.where(), ok=ok)
        if not ok:
            ctx.violation("%s:R-C03-c:unguarded-partitioning" % c.fn.name, "partition_data_for_worker is called outside the guarded execute_with_config", c.where())
    ctx.end_rule()

    # ---- d: merge is a set
    ctx.rule("R-C03-d", "partition results reach the returned value only through a HashSet (duplicates across partitions are merged)", floor=1)
    ext = [c for c in f.normal_calls() if re.search(r"HashSet<value::Tuple.*as std::iter::Extend<value::Tuple>>::extend", c.static_args or "")]
    ret_from_set = False
    for c in f.normal_calls():
        da = c.static_args or ""
        if "HashSet<value::Tuple" in da and ("into_iter" in da or "IntoIterator" in da):
            ret_from_set = True
    ok = bool(ext) and ret_from_set
    ctx.site("merge through HashSet<Tuple>", f.where(), ok=ok, extend_calls=len(ext))
    if not ok:
        ctx.violation("%s:R-C03-d:merge-not-a-set" % EXEC, "per-partition results are no longer merged through a HashSet<Tuple>: Map/Distinct plans return duplicates with several workers", f.where())
    ctx.end_rule()
