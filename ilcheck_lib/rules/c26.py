"""C26 - vector and temporal builtins obey their laws (LSH determinism clause only)."""
import re
from ..core import CheckError, op_local, proj
from . import common

GEN = "vector_ops::generate_hyperplanes"
GOC = "vector_ops::get_or_create_hyperplanes"
NONDET = re.compile(r"^rand(::|_)|RandomState::new|SystemTime::now|Instant::now|std::thread::current|std::env::|getrandom|fastrand|thread_rng|OsRng|std::time::|chrono::.*::now|uuid::")


def run(F, ctx):
    ctx.explanation = (
        "Decides only the determinism clause `LSH buckets depend only on the vector, table and hyperplane count, whatever the cache's state or concurrent use`: (a) hyperplane "
        "generation is a pure function of its three parameters - nothing reachable from it reads a clock, a random source, the environment, thread identity or an atomic; "
        "(b) the cache key is built from exactly the values handed to the generator, every value returned on a hit is the entry stored under that key, and the cache map has no "
        "other writer than this function (insert, LRU removal) and the explicit clear/resize functions. Not decided (numerical): distance symmetry / non-negativity, quantization "
        "error bounds, probe-sequence laws, temporal builtins."
    )
    g = F.fn(GEN)
    # ---- a
    ctx.rule("R-C26-a", "generate_hyperplanes is pure: no clock / random / environment / thread / atomic source reachable", floor=2)
    for n in sorted(F.reach([GEN])):
        f = F.fn(n)
        bad = []
        for c in f.calls():
            for nm in (c.resolved, c.static):
                if nm and (NONDET.search(nm) or re.search(r"atomic::Atomic.*::(load|fetch_\w+|swap|store)", nm)):
                    bad.append((c, nm))
        ctx.site(n, f.where(), ok=not bad)
        for (c, nm) in bad:
            ctx.violation("%s:R-C26-a:%s" % (n, nm.split("::")[-1]), "%s (reachable from hyperplane generation) calls %s: hyperplanes - and with them LSH buckets - would depend on something other than (table, hyperplane count, dimension)" % (n.split("::")[-1], nm), c.where())
    # all three parameters are used
    for i, nm in enumerate(("table_idx", "num_hyperplanes", "dimension"), start=1):
        d = g.derive({i}, through_calls=True)
        ok = 0 in d or any(op_local(a) in d for c in g.normal_calls() for a in c.args)
        ctx.site("generate_hyperplanes uses %s" % nm, g.where(), ok=ok)
    ctx.end_rule()

    # ---- b
    ctx.rule("R-C26-b", "cache key = exactly the generator's inputs; hits return the entry stored under that key; no foreign writer of the cache map", floor=3)
    f = F.fn(GOC)
    gen = [c for c in f.normal_calls() if c.resolved == GEN]
    if not gen:
        raise CheckError("get_or_create_hyperplanes no longer calls generate_hyperplanes")
    key_l = f.need_local("key")
    ok = key_l is not None
    key_ops = None
    if ok:
        for i in range(f.n):
            for st in f.stmts(i):
                if st["d"]["l"] == key_l and not proj(st["d"]) and st["r"].get("k") == "agg" and st["r"].get("ak") == "tuple":
                    key_ops = [common.origins(f, op_local(o)) for o in st["r"]["ops"]]
        ok = key_ops is not None
    if ok:
        gargs = [common.origins(f, op_local(a)) for a in gen[0].args]
        # each generator input is a component of the key and vice versa (compare through their parameter origins)
        params = {1, 2, 3}
        kset = [tuple(sorted(o & params)) for o in key_ops]
        gset = [tuple(sorted(o & params)) for o in gargs]
        ok = sorted(kset) == sorted(gset) and all(len(x) == 1 for x in kset) and len(kset) == 3
    ctx.site("cache key is built from exactly the generator's inputs", f.where(), ok=bool(ok), key_components=len(key_ops or []))
    if not ok:
        ctx.violation(GOC + ":R-C26-b:key-coverage", "the hyperplane cache key does not consist of exactly the values passed to generate_hyperplanes: two different configurations can share cached hyperplanes (or one configuration can get different ones)", f.where())
    # lookups and the insert use that key
    kd = f.derive({key_l}, through_calls=False) if key_l is not None else set()
    gets = [c for c in f.normal_calls() if re.search(r"HashMap::<\(i64, usize, usize\), .*>::(get|insert|entry)(::<.*>)?$", c.static_args or "")]
    ok = bool(gets) and all(op_local(c.args[1]) in kd for c in gets)
    ctx.site("lookups and the insert use the key", f.where(), ok=ok, map_calls=len(gets))
    if not ok:
        ctx.violation(GOC + ":R-C26-b:other-key", "a cache lookup or insert in get_or_create_hyperplanes does not use the configuration key", f.where())
    # the inserted value is the freshly generated one
    ins = [c for c in gets if re.search(r"::insert$", c.static_args or "")]
    gd = f.derive({gen[0].dst["l"]}, through_calls=True)
    ok = bool(ins) and all(op_local(c.args[2]) in gd for c in ins)
    ctx.site("the cached value is the generated one", f.where(), ok=ok)
    if not ok:
        ctx.violation(GOC + ":R-C26-b:cached-value", "the value stored in the cache is not the one generate_hyperplanes produced for the key", f.where())
    # writers of LshHyperplaneCache.cache
    allowed = {GOC, "vector_ops::clear_lsh_cache", "vector_ops::LshHyperplaneCache::new", "vector_ops::set_lsh_cache_size", "vector_ops::resize_lsh_cache"}
    for n in sorted(F.bodies):
        if not n.startswith("vector_ops::"):
            continue
        if "LshHyperplaneCache" not in F.raw_line(n):
            continue
        fn_ = F.fn(n)
        w = [(bb, line) for (bb, kind, adt, fld, line, pl) in fn_.field_accesses() if adt.endswith("LshHyperplaneCache") and fld == "cache" and kind in ("w", "wb", "wp")]
        if w:
            root = n.split("::{closure")[0]
            ok = root in allowed
            ctx.site("%s writes the hyperplane cache map" % root, fn_.where(), ok=ok)
            if not ok:
                ctx.violation("%s:R-C26-b:foreign-cache-writer" % root, "%s mutates the hyperplane cache map; only get_or_create_hyperplanes and the clear/resize functions may" % root, fn_.where())
    ctx.end_rule()
