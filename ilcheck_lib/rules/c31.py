"""C31 - value comparison is a total order consistent with equality and hashing.

Decided statically on the finite shape of the three impls:
  a  no IEEE (partial) float comparison anywhere under Eq/Ord/Hash of Value/Tuple (MIR, type-resolved)
  b  per variant, the three impls touch the payload through the same canonical key
  c  the cross-kind arms of Ord::cmp, evaluated with first-match semantics over all
     variant pairs, induce a strict total order on kinds; Eq has no cross-kind arm
  d  PartialOrd delegates to Ord; Tuple's Eq/Hash/Ord cover the same fields
"""
import re
from ..core import CheckError, syn_walk, pat_paths, pat_bindings, last_seg
from . import common

VALUE = "value::Value"
TUPLE = "value::Tuple"
ROOTS = [
    "<value::Value as std::cmp::PartialEq>::eq",
    "<value::Value as std::cmp::Ord>::cmp",
    "<value::Value as std::cmp::PartialOrd>::partial_cmp",
    "<value::Value as std::hash::Hash>::hash",
    "<value::Tuple as std::cmp::PartialEq>::eq",
    "<value::Tuple as std::cmp::Ord>::cmp",
    "<value::Tuple as std::cmp::PartialOrd>::partial_cmp",
    "<value::Tuple as std::hash::Hash>::hash",
]

# methods that may be applied to a payload / intermediate inside a same-variant arm
# without changing which key is compared (std iteration / ordering combinators)
NEUTRAL = {"iter", "zip", "all", "len", "cmp", "eq", "ne", "hash", "then", "then_with", "reverse",
           "as_ref", "as_slice", "as_bytes", "as_str", "deref", "cloned", "copied", "is_empty"}
KEYED = {"to_bits", "total_cmp"}


def run(F, ctx):
    ctx.explanation = (
        "Decides the structural clauses that make Eq/Hash/Ord of Value (and Tuple) lawful for every value: "
        "(a) no partial/IEEE float comparison is reachable from the impls (type-resolved MIR), "
        "(b) each variant's payload is compared, equated and hashed through the same canonical key "
        "(payload itself for non-float payloads, bit pattern for floats), "
        "(c) the cross-kind arms form a strict total order over all 9x9 variant pairs and 729 triples, "
        "(d) PartialOrd delegates to Ord and Tuple's three impls cover the same fields. "
        "Not decided: that the std orders on i32/i64/str/u32/u64/usize are lawful (trusted), loop details of the vector arms."
    )
    ctx.assume("std's Ord/Eq/Hash for integers, str, bool and slices of them are lawful and mutually consistent")
    ctx.assume("f64::total_cmp returns Equal exactly when the bit patterns are equal (std contract)")
    variants = F.variants(VALUE)
    vinfo = {v["name"]: v for v in F.adt(VALUE)["variants"]}
    floaty = {n for n, v in vinfo.items() if any(re.search(r"\bf(32|64)\b", f["ty"]) for f in v["fields"])}

    # ---- a: forbid float partial comparisons in scope (MIR)
    ctx.rule("R-C31-a", "no IEEE/partial float comparison reachable from Eq/Ord/Hash of Value and Tuple", floor=8)
    scope = set()
    for r in ROOTS:
        F.fn(r)  # anchor must exist
        for n in F.reach([r]):
            scope.add(n)
    for n in sorted(scope):
        f = F.fn(n)
        bad = common.float_partial_ops(f)
        ctx.site(n, f.where(), ok=not bad, float_partial_ops=len(bad))
        for (line, what) in bad:
            ctx.violation("%s:R-C31-a:%s" % (n, what), "partial/IEEE float comparison `%s` inside the value order/equality/hash" % what, "%s:%s" % (f.file, line),
                          "floats may be touched only through to_bits/total_cmp here; partial_cmp/==/< treat NaN and -0.0 differently from the bitwise Eq/Hash")
    ctx.end_rule()

    # ---- b: per-variant key agreement (syntax tables)
    eq = F.syn_fn("eq", file="src/value/mod.rs", impl_self="Value")
    cmp_ = F.syn_fn("cmp", file="src/value/mod.rs", impl_self="Value")
    hs = F.syn_fn("hash", file="src/value/mod.rs", impl_self="Value")

    def top_match(fnrec, on):
        ms = [n for n in syn_walk(fnrec["body"]) if n.get("e") == "match"]
        if not ms:
            raise CheckError("no match in %s" % fnrec["name"])
        return ms[0]

    meq, mcmp, mhash = top_match(eq, None), top_match(cmp_, None), top_match(hs, None)

    def pair_arm(arm):
        """classify a 2-tuple arm: ('same', V) | ('left', V) | ('right', V) | ('wild',) | ('cross', V1, V2) | None"""
        p = arm["pat"]
        if p.get("p") == "wild":
            return ("wild",)
        if p.get("p") != "tuple" or len(p["elems"]) != 2:
            return None
        l, r = p["elems"]
        lp, lw = pat_paths(l)
        rp, rw = pat_paths(r)
        if lw and rw:
            return ("wild",)
        if lp and rp:
            if len(lp) == 1 and len(rp) == 1:
                a, b = last_seg(lp[0]), last_seg(rp[0])
                return ("same", a) if a == b else ("cross", a, b)
            return None
        if lp and rw and len(lp) == 1:
            return ("left", last_seg(lp[0]))
        if rp and lw and len(rp) == 1:
            return ("right", last_seg(rp[0]))
        return None

    def key_of(body, binds):
        """set of key extractors applied in a same-variant arm body"""
        ks = set()
        foreign = []
        for n in syn_walk(body):
            e = n.get("e")
            if e == "mcall":
                m = n["m"]
                if m in KEYED:
                    ks.add("bits")
                elif m not in NEUTRAL:
                    foreign.append(m)
            elif e == "cast":
                foreign.append("as " + n["ty"])
            elif e == "call":
                fp = n["f"].get("p", "?")
                if last_seg(fp) not in ("Some", "Ok"):
                    foreign.append(fp + "()")
            elif e == "macro":
                foreign.append(n["name"] + "!")
        return ks, foreign

    ctx.rule("R-C31-b", "per variant: Eq, Ord and Hash use the same canonical key of the payload", floor=3 * len(variants))
    same = {"eq": {}, "cmp": {}, "hash": {}}
    for arm in meq["arms"]:
        c = pair_arm(arm)
        if c and c[0] == "same":
            same["eq"][c[1]] = arm
    for arm in mcmp["arms"]:
        c = pair_arm(arm)
        if c and c[0] == "same":
            same["cmp"].setdefault(c[1], arm)
    for arm in mhash["arms"]:
        ps, w = pat_paths(arm["pat"])
        if len(ps) == 1:
            same["hash"][last_seg(ps[0])] = arm
    for v in variants:
        for impl in ("eq", "cmp", "hash"):
            arm = same[impl].get(v)
            where = "src/value/mod.rs:%s" % (arm["ln"] if arm else {"eq": eq, "cmp": cmp_, "hash": hs}[impl]["line"])
            if arm is None:
                ctx.site("%s/%s" % (impl, v), where, ok=False)
                ctx.violation("value::Value:R-C31-b:%s:%s:missing-arm" % (impl, v), "no same-variant arm for Value::%s in %s" % (v, impl), where)
                continue
            if arm.get("guard"):
                ctx.site("%s/%s" % (impl, v), where, ok=False)
                ctx.violation("value::Value:R-C31-b:%s:%s:guard" % (impl, v), "same-variant arm for Value::%s in %s has a guard (falls through to the cross-kind arms)" % (v, impl), where)
                continue
            ks, foreign = key_of(arm["body"], pat_bindings(arm["pat"]))
            want = {"bits"} if v in floaty else set()
            ok = (ks == want) and not foreign
            ctx.site("%s/%s" % (impl, v), where, ok=ok, key=("bits" if ks else "payload"), expected=("bits" if want else "payload"))
            if foreign:
                ctx.violation("value::Value:R-C31-b:%s:%s:foreign:%s" % (impl, v, ",".join(sorted(set(foreign)))),
                              "the %s arm of Value::%s transforms the payload with %s: the key compared there is no longer the one the other two impls use" % (impl, v, sorted(set(foreign))), where)
            elif ks != want:
                ctx.violation("value::Value:R-C31-b:%s:%s:key" % (impl, v),
                              "the %s arm of Value::%s uses key %s but the canonical key of this variant is %s" % (impl, v, "bits" if ks else "payload", "bits" if want else "payload"), where)
    ctx.end_rule()

    # ---- c: cross-kind structure
    ctx.rule("R-C31-c", "Eq has only same-variant arms + `_ => false`; Ord's cross-kind arms are a strict total order on kinds (first-match evaluation)", floor=len(variants) ** 2)
    # Eq
    for arm in meq["arms"]:
        c = pair_arm(arm)
        where = "src/value/mod.rs:%s" % arm["ln"]
        if c is None or c[0] in ("cross", "left", "right"):
            ctx.site("eq-arm", where, ok=False)
            ctx.violation("value::Value:R-C31-c:eq:cross-arm", "Eq for Value has an arm that relates different kinds or ignores one side: equal values would then differ in hash/order", where)
        elif c[0] == "wild":
            b = arm["body"]
            ok = b.get("e") == "lit" and b.get("v") == "false"
            ctx.site("eq-wild", where, ok=ok)
            if not ok:
                ctx.violation("value::Value:R-C31-c:eq:wild-not-false", "the fall-through arm of Eq for Value is not `false`", where)
    # Ord: first-match evaluation
    arms = []
    for arm in mcmp["arms"]:
        c = pair_arm(arm)
        if c is None:
            ctx.violation("value::Value:R-C31-c:cmp:unrecognised-arm", "Ord::cmp for Value has an arm of an unrecognised shape", "src/value/mod.rs:%s" % arm["ln"])
            continue
        res = None
        b = arm["body"]
        if b.get("e") == "path":
            res = last_seg(b["p"])
        if arm.get("guard"):
            ctx.violation("value::Value:R-C31-c:cmp:guarded-arm", "Ord::cmp for Value has a guarded arm; first-match evaluation of the rank table is no longer decidable from shape", "src/value/mod.rs:%s" % arm["ln"])
        arms.append((c, res, arm))
        if c[0] in ("left", "right", "cross") and pat_bindings(arm["pat"]):
            ctx.violation("value::Value:R-C31-c:cmp:cross-arm-binds", "a cross-kind arm of Ord::cmp binds payloads (%s): cross-kind order must depend on the kinds only" % pat_bindings(arm["pat"]), "src/value/mod.rs:%s" % arm["ln"])

    def first(v1, v2):
        for c, res, arm in arms:
            if c[0] == "same" and v1 == v2 == c[1]:
                return ("same", arm)
            if c[0] == "cross" and c[1] == v1 and c[2] == v2:
                return (res, arm)
            if c[0] == "left" and c[1] == v1:
                return (res, arm)
            if c[0] == "right" and c[1] == v2:
                return (res, arm)
            if c[0] == "wild":
                return (res, arm)
        return (None, None)

    rel = {}
    for a in variants:
        for b in variants:
            r, arm = first(a, b)
            where = "src/value/mod.rs:%s" % (arm["ln"] if arm else cmp_["line"])
            if a == b:
                ok = r == "same"
                ctx.site("cmp(%s,%s)" % (a, b), where, ok=ok, result=r)
                if not ok:
                    ctx.violation("value::Value:R-C31-c:cmp:%s:shadowed" % a, "cmp(%s, %s) is decided by a cross-kind arm (%s) before its same-variant arm" % (a, a, r), where)
            else:
                ok = r in ("Less", "Greater")
                ctx.site("cmp(%s,%s)" % (a, b), where, ok=ok, result=r)
                if not ok:
                    ctx.violation("value::Value:R-C31-c:cmp:%s-%s:undecided" % (a, b), "cmp(%s, %s) yields %s: distinct kinds must order strictly" % (a, b, r), where)
                rel[(a, b)] = r
    for a in variants:
        for b in variants:
            if a < b and rel.get((a, b)) in ("Less", "Greater") and rel.get((b, a)) in ("Less", "Greater"):
                if rel[(a, b)] == rel[(b, a)]:
                    ctx.violation("value::Value:R-C31-c:cmp:%s-%s:antisymmetry" % (a, b), "cmp(%s,%s) and cmp(%s,%s) are both %s" % (a, b, b, a, rel[(a, b)]), "src/value/mod.rs:%s" % cmp_["line"])
    ntri = 0
    for a in variants:
        for b in variants:
            for c in variants:
                ntri += 1
                if len({a, b, c}) == 3 and rel.get((a, b)) == "Less" and rel.get((b, c)) == "Less" and rel.get((a, c)) != "Less":
                    ctx.violation("value::Value:R-C31-c:cmp:%s-%s-%s:transitivity" % (a, b, c), "%s < %s < %s but cmp(%s,%s) = %s" % (a, b, c, a, c, rel.get((a, c))), "src/value/mod.rs:%s" % cmp_["line"])
    ctx.extra["kind_triples_checked"] = ntri
    ctx.end_rule()

    # ---- d: delegation and field coverage
    ctx.rule("R-C31-d", "PartialOrd delegates to Ord; Tuple's Eq/Hash/Ord read the same fields", floor=5)
    for ty in ("value::Value", "value::Tuple"):
        f = F.fn("<%s as std::cmp::PartialOrd>::partial_cmp" % ty)
        target = "<%s as std::cmp::Ord>::cmp" % ty
        cs = [c for c in f.normal_calls()]
        ok = len(cs) >= 1 and all(c.resolved == target for c in cs)
        has_some = any(st["r"].get("k") == "agg" and st["r"].get("var") == "Some" for i in range(f.n) for st in f.stmts(i))
        ok = ok and has_some and not any(st["r"].get("k") == "agg" and st["r"].get("var") == "None" for i in range(f.n) for st in f.stmts(i))
        ctx.site("partial_cmp of %s" % ty, f.where(), ok=ok)
        if not ok:
            ctx.violation("%s:R-C31-d:partial_cmp-not-delegating" % ty, "PartialOrd::partial_cmp of %s is not `Some(self.cmp(other))`" % ty, f.where())
    fields = {}
    for tr, m in (("std::cmp::PartialEq", "eq"), ("std::hash::Hash", "hash"), ("std::cmp::Ord", "cmp")):
        f = F.fn("<value::Tuple as %s>::%s" % (tr, m))
        fs = set()
        for (bb, kind, adt, field, line, place) in f.field_accesses():
            if adt == TUPLE:
                fs.add(field)
        fields[m] = fs
        ctx.site("Tuple::%s fields" % m, f.where(), ok=True, fields=sorted(fs))
    allf = {fd["name"] for fd in F.adt(TUPLE)["variants"][0]["fields"]}
    if not (fields["eq"] == fields["hash"] == fields["cmp"]) or fields["eq"] != allf:
        ctx.violation("value::Tuple:R-C31-d:field-coverage", "Tuple's Eq/Hash/Ord do not read the same fields: eq=%s hash=%s cmp=%s struct=%s" % (sorted(fields["eq"]), sorted(fields["hash"]), sorted(fields["cmp"]), sorted(allf)), "src/value/mod.rs")
    # Tuple impls must only go through Value's impls (no own float handling): covered by (a) via reach
    ctx.end_rule()
