"""C20 - reads observe a committed prefix (publish-after-mutate, single snapshot per read, immutability)."""
import re
from ..core import CheckError, op_local
from . import common, dur

KG = "storage_engine::KnowledgeGraph"
SE = "storage_engine::StorageEngine"
PUB = KG + "::publish_snapshot"
SNAP = KG + "::snapshot"
RC = "rule_catalog::RuleCatalog"
RC_MUT = {RC + "::" + x for x in ("register_rule", "register", "drop", "drop_by_prefix", "clear_rules", "replace_rule", "remove_rule_clause")}
# functions that mutate served state but whose publication is their caller's duty (checked at the callers)
INNER = {KG + "::auto_materialize_rule": "helper of the rule mutators; every caller publishes after it (checked)"}
_ARCSWAP_STORE = re.compile(r"^arc_swap::ArcSwapAny::<.*>::store$")
_ARCSWAP_LOAD = re.compile(r"^arc_swap::ArcSwapAny::<.*>::(load|load_full)$")


def live_engine(pl):
    """the place goes through KnowledgeGraph.engine (the graph's own engine, not a per-query engine local)"""
    from ..core import place_fields
    return (KG, "engine") in place_fields(pl)


def engine_write_blocks(f):
    return sorted({bb for (bb, kind, adt, fld, line, pl) in f.field_accesses() if adt == "IQLEngine" and fld == "input_tuples" and live_engine(pl) and kind in ("w", "wb", "wp") and not f.is_cleanup(bb)})


def kg_mutators(F):
    """KnowledgeGraph methods that write the graph's own engine map or call a rule-catalog mutator"""
    mutators = {}
    for n in sorted(F.bodies):
        if not n.startswith(KG + "::") or "{closure" in n or n == PUB:
            continue
        raw = F.raw_line(n)
        if '"input_tuples"' not in raw and "rule_catalog::RuleCatalog::" not in raw:
            continue
        f = F.fn(n)
        wb = engine_write_blocks(f) if '"input_tuples"' in raw else []
        rcm = [c.bb for c in f.normal_calls() if c.resolved in RC_MUT]
        if wb or rcm:
            mutators[n] = (wb, rcm)
    return mutators


def run(F, ctx):
    ctx.explanation = (
        "Decides: (a) every KnowledgeGraph method that mutates the served state (base tuples of its engine, or the rule catalog) reaches publish_snapshot on every success "
        "path after its last mutation (only 'nothing changed' guards may skip, each listed), so an acknowledged write is in the published snapshot; (b) StorageEngine "
        "calls those mutators only under the graph's write lock; (c) every read entry point loads exactly one snapshot - no second load, directly or through a callee - and "
        "only the enumerated functions touch the live engine map; the snapshot cell is stored only by publish_snapshot, once per path, from a freshly built value; "
        "(d) no public KnowledgeGraph method hands out a mutable reference to the engine. Not decided: multi-statement programs are not atomic batches (by design)."
    )
    # ---- a
    ctx.rule("R-C20-a", "publish_snapshot on every success path after a mutation of served state", floor=10)
    mutators = kg_mutators(F)
    for n, (wb, rcm) in mutators.items():
        f = F.fn(n)
        short = n.split("::")[-1]
        if n in INNER:
            callers = [c for c in F.callers(n)]
            okc = bool(callers) and all(c in mutators for c in callers)
            for c in callers:
                cf = F.fn(c)
                calls = [x for x in cf.normal_calls() if x.resolved == n]
                pubs = [x for x in cf.normal_calls() if x.resolved == PUB]
                for x in calls:
                    okp, _ = dur.must_pass(cf, [p.bb for p in pubs], extra_stop=dur.angelic_skip_targets(F, cf, [p.bb for p in pubs]), start=x.target)
                    okc = okc and okp
            ctx.site("%s (inner helper): every caller publishes afterwards" % short, f.where(), ok=okc, callers=callers)
            ctx.exempt(n, INNER[n])
            if not okc:
                ctx.violation("%s:R-C20-a:inner-helper-unpublished" % n, "%s mutates served state and one of its callers (%s) does not publish a snapshot afterwards" % (short, callers), f.where())
            continue
        pubs = [c for c in f.normal_calls() if c.resolved == PUB]
        skip = dur.angelic_skip_targets(F, f, [c.bb for c in pubs], ctx, n)
        bad = None
        for w in sorted(set(wb + rcm)):
            start = w
            # for a catalog mutator call start after the call (its own error exit needs no publication)
            if w in rcm:
                start = f.term(w).get("to", w)
            ok, wit = dur.must_pass(f, [c.bb for c in pubs], extra_stop=skip, start=start)
            if not ok:
                bad = (w, wit)
                break
        ctx.site("%s publishes after mutating" % short, f.where(), ok=bad is None, engine_writes=len(wb), catalog_mutations=len(rcm), publishes=len(pubs))
        if bad:
            ctx.violation("%s:R-C20-a:mutation-not-published" % n, "KnowledgeGraph::%s changes the served state and can return success without publish_snapshot(): the acknowledged write is invisible to later queries (a client does not observe its own write)" % short, f.where(bad[0]), detail="witness blocks %s" % bad[1])
    if len(mutators) < 10:
        raise CheckError("only %d KnowledgeGraph mutators found (expected >= 10)" % len(mutators))
    # publish_snapshot stores exactly once per path, into the snapshot cell, a value built in this call
    p = F.fn(PUB)
    stores = [c for c in p.normal_calls() if _ARCSWAP_STORE.match(c.static_args or "")]
    twice = any(a is not b and b.bb in p.reachable_from([a.bb]) for a in stores for b in stores)
    okp, wit = dur.must_pass(p, [c.bb for c in stores])
    fresh = all(any(x.resolved and x.resolved.endswith("KnowledgeGraphSnapshot::new_with_materializations") and op_local(c.args[1]) in p.derive({x.dst["l"]}, through_calls=True, stop_calls=[_ARCSWAP_STORE]) for x in p.normal_calls()) for c in stores)
    ok = bool(stores) and not twice and okp and fresh
    ctx.site("publish_snapshot: one store per path of a freshly built snapshot", p.where(), ok=ok, stores=len(stores))
    if not ok:
        ctx.violation(PUB + ":R-C20-a:store", "publish_snapshot does not store exactly one freshly built snapshot on every path", p.where())
    ctx.end_rule()

    # ---- b
    ctx.rule("R-C20-b", "StorageEngine calls KnowledgeGraph mutators only under the graph's write lock", floor=8)
    n_sites = 0
    for n in sorted(F.bodies):
        if not n.startswith(SE + "::"):
            continue
        raw = F.raw_line(n)
        if "storage_engine::KnowledgeGraph::" not in raw:
            continue
        f = F.fn(n)
        calls = [c for c in f.normal_calls() if c.resolved in mutators and c.resolved not in INNER]
        if not calls:
            continue
        regs = []
        for (c, fld, md) in common.lock_acquisitions(f):
            if md == "write" and "KnowledgeGraph" in (c.static_args or ""):
                reg, drops = common.guard_region(f, c)
                regs.append((c, reg, drops))
        for c in calls:
            n_sites += 1
            ok = any(common.call_in_region(f, c, reg, drops) and op_local(c.args[0]) in f.derive({g.dst["l"]}, through_calls=True) for (g, reg, drops) in regs)
            ctx.site("%s -> %s under db.write()" % (n.split("::")[-1], c.resolved.split("::")[-1]), c.where(), ok=ok)
            if not ok:
                ctx.violation("%s:R-C20-b:mutator-outside-write-lock:%s" % (n, c.resolved.split("::")[-1]), "%s calls KnowledgeGraph::%s without holding the graph's write lock" % (n.split("::")[-1], c.resolved.split("::")[-1]), c.where())
    if n_sites < 8:
        raise CheckError("only %d StorageEngine->KnowledgeGraph mutator call sites found" % n_sites)
    ctx.end_rule()

    # ---- e: one request batch, one hold of the write lock, one publication
    ctx.rule("R-C20-e", "a request batch is applied to the served state by one mutator call under one hold of the graph's write lock (never chunk by chunk)", floor=2)
    n_b = 0
    for (entry, mut) in ((SE + "::insert_tuples_into", KG + "::insert_in_memory"), (SE + "::delete_tuples_from", KG + "::delete_in_memory")):
        f = F.fn(entry)
        loops = dur.loop_blocks(f)
        calls = [c for c in f.normal_calls() if c.resolved == mut]
        if not calls:
            raise CheckError("%s no longer calls %s" % (entry, mut))
        acq = [c for (c, fld, md) in common.lock_acquisitions(f) if md == "write" and "KnowledgeGraph" in (c.static_args or "")]
        for c in calls:
            n_b += 1
            ok = c.bb not in loops and not any(a.bb in loops for a in acq)
            ctx.site("%s: %s applied once, lock taken once" % (entry.split("::")[-1], mut.split("::")[-1]), c.where(), ok=ok)
            if not ok:
                ctx.violation("%s:R-C20-e:batch-applied-in-pieces" % entry, "%s applies one request batch in several mutator calls, re-taking the write lock (and publishing a snapshot) for each piece: a concurrent reader can load a snapshot that holds only the first part of the batch" % entry.split("::")[-1], c.where())
    ctx.end_rule()

    # ---- c
    ctx.rule("R-C20-c", "one snapshot load per read entry point; live engine map touched only by the enumerated functions; snapshot cell stored only by publish_snapshot", floor=10)
    loaders = [n for n in F.callers(SNAP)]
    loads_snapshot = set()
    for n in F.bodies:
        if n.startswith("storage_engine::") and "{closure" not in n.split("::")[-1]:
            pass
    # functions that (transitively) load a snapshot
    memo = {}

    def loads(nm):
        if nm in memo:
            return memo[nm]
        memo[nm] = False
        r = F.reach([nm])
        memo[nm] = SNAP in r
        return memo[nm]

    for n in loaders:
        f = F.fn(n)
        direct = [c for c in f.normal_calls() if c.resolved == SNAP]
        # (i) no second direct load reachable from a first one, except inside a loop over different graphs (closure per graph)
        second = any(a is not b and b.bb in f.reachable_from([a.target] if a.target is not None else []) for a in direct for b in direct)
        loops = dur.loop_blocks(f)
        in_loop = [c for c in direct if c.bb in loops]
        # (ii) no other call that loads a snapshot again
        indirect = [c for c in f.normal_calls() if c.resolved in F.bodies and c.resolved != SNAP and loads(c.resolved)]
        # closures created here are part of the same function for this purpose
        ok = not second and not indirect and not in_loop
        ctx.site("%s loads one snapshot" % n.split("::")[-1], f.where(), ok=ok, direct_loads=len(direct), other_loading_callees=[c.resolved.split("::")[-1] for c in indirect])
        if second or in_loop:
            ctx.violation("%s:R-C20-c:two-snapshot-loads" % n, "%s loads the knowledge graph's snapshot more than once on one path: the parts of its answer can come from different committed prefixes" % n.split("::")[-1], direct[-1].where())
        for c in indirect:
            ctx.violation("%s:R-C20-c:second-load-via:%s" % (n, c.resolved.split("::")[-1]), "%s loads a snapshot and also calls %s, which loads the current snapshot again: result and context can come from different committed prefixes" % (n.split("::")[-1], c.resolved.split("::")[-1]), c.where())
    # who touches the live engine map
    allowed = set(mutators) | {PUB, KG + "::enable_incremental", KG + "::auto_materialize_rule", SE + "::load_knowledge_graph_from_persist"}
    for n in sorted(F.bodies):
        if not n.startswith("storage_engine::"):
            continue
        if '"input_tuples"' not in F.raw_line(n):
            continue
        f = F.fn(n)
        acc = [(bb, kind, line) for (bb, kind, adt, fld, line, pl) in f.field_accesses() if adt == "IQLEngine" and fld == "input_tuples" and live_engine(pl)]
        if not acc:
            continue
        root = n.split("::{closure")[0]
        # only functions holding a KnowledgeGraph (self.engine) matter; snapshots carry their own immutable map
        ok = root in allowed or root.startswith(KG + "::") and all(k.startswith("r") for (_b, k, _l) in acc) and root in READ_ONLY_ACCESSORS
        ctx.site("%s touches engine.input_tuples" % root.split("::")[-1], f.where(), ok=ok, kinds=sorted({k for (_b, k, _l) in acc}))
        if not ok:
            ctx.violation("%s:R-C20-c:live-map-access" % root, "%s reads or writes the live engine map directly instead of going through the published snapshot (or is a new mutator that is not in the publish-after-mutate table)" % root.split("::")[-1], "%s:%s" % (f.file, acc[0][2]))
    for c in F.call_sites_of(_ARCSWAP_STORE):
        n = c.fn.name.split("::{closure")[0]
        if not n.startswith("storage_engine::"):
            continue
        ok = n in (PUB,)
        ctx.site("snapshot cell stored by %s" % n.split("::")[-1], c.where(), ok=ok)
        if not ok:
            ctx.violation("%s:R-C20-c:foreign-store" % n, "%s stores into a snapshot cell; only publish_snapshot may publish" % n.split("::")[-1], c.where())
    ctx.end_rule()

    # ---- d
    ctx.rule("R-C20-d", "no public KnowledgeGraph method returns a mutable reference into the engine", floor=20)
    for n in sorted(F.bodies):
        if not n.startswith(KG + "::") or "{closure" in n:
            continue
        f = F.fn(n)
        if f.b.get("vis") != "pub":
            continue
        rt = f.ty(0)
        bad = rt.startswith("&mut ") and ("IQLEngine" in rt or "HashMap<std::string::String, std::vec::Vec<value::Tuple>>" in rt)
        ctx.site("%s -> %s" % (n.split("::")[-1], rt[:60]), f.where(), ok=not bad)
        if bad:
            ctx.violation("%s:R-C20-d:mutable-engine-escape" % n, "public method %s returns `%s`: callers can mutate served state without publishing a snapshot" % (n.split("::")[-1], rt), f.where())
    ctx.end_rule()


# KnowledgeGraph accessors that only read the live map for metadata (reason each); they run under the graph's lock
READ_ONLY_ACCESSORS = {}
