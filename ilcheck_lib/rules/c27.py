"""C27 - authorization holds for every program."""
from . import authrules as A


def run(F, ctx):
    ctx.explanation = (
        "Decides, at the authenticated entry point (Handler::execute_program): (AUTH-3) every path to an executor passes the per-statement authorization, whose "
        "denial is propagated and which receives the refreshed identity, the submitted text and the request's knowledge graph; (AUTH-2) authorization and executor "
        "segment the text into statements identically; (AUTH-1) inside the per-line loop a parsed statement is authorized before the next line and an unparsable line "
        "forces rejection (no fail-open edge); (AUTH-4) the graph a statement is checked against follows earlier .kg use/.kg create lines; (AUTH-6) per statement, the "
        "global-role check and the per-KG role check for the statement's target graph lie on every non-admin success path; (AUTH-5) executors have no other caller. "
        "The permission tables themselves are decided under C28. Not decided: the legacy per-session WebSocket endpoint (listed)."
    )
    A.rule_must_pass(F, ctx, "C27")
    A.rule_same_unit(F, ctx)
    A.rule_no_bypass(F, ctx)
    A.rule_kg_tracking(F, ctx)
    A.rule_role_checks(F, ctx)
    A.rule_who_may_call(F, ctx)
