"""Authorization rule family (C27, C29): unit of authorization = unit of execution,
no parse-failure bypass, must-pass on every path to an executor, knowledge-graph tracking,
system-KG guard."""
import re
from ..core import CheckError, Call, op_local, op_place, proj, place_fields
from . import common, dur

H = "protocol::handler::Handler"
EP = H + "::execute_program::{closure#0}"
APL = H + "::authorize_program_lines"
AOS = H + "::authorize_one_statement"
QJ = "protocol::handler::QueryJob::execute"
PARSE = "statement::parse_statement"
SEG = ["protocol::handler::strip_comments", "protocol::handler::join_continuation_lines"]
SINK_PAT = re.compile(
    r"^protocol::handler::Handler::(query_program|query_program_with_session|handle_(?!kg_acl_list)\w+)$|"
    r"^session::SessionManager::(add_ephemeral_rule|insert_ephemeral|clear_session|switch_kg|retract_ephemeral|close_sessions_for_kg)$")
_LINES = re.compile(r"^core::str::<impl str>::lines$")
_PROM = re.compile(r"::promoted\[(\d+)\]$")


def internal_locals(f):
    """locals holding (a reference to) a promoted constant that mentions INTERNAL_KG"""
    prom = f.b.get("promoted") or []
    out = set()
    for i in range(f.n):
        for st in f.stmts(i):
            rv = st["r"]
            if rv.get("k") == "use" and "k" in rv["o"] and "c" not in rv["o"] and "m" not in rv["o"]:
                m = _PROM.search(rv["o"].get("t") or "")
                if m and int(m.group(1)) < len(prom) and any("INTERNAL_KG" in x for x in prom[int(m.group(1))]):
                    out.add(st["d"]["l"])
                elif "INTERNAL_KG" in (rv["o"].get("t") or ""):
                    out.add(st["d"]["l"])
    return out


def internal_comparisons(f):
    """PartialEq::eq calls one of whose operands is the INTERNAL_KG constant: [(call, other_arg_local)]"""
    il = internal_locals(f)
    out = []
    for c in f.normal_calls():
        if (c.static or "") not in ("std::cmp::PartialEq::eq", "std::cmp::PartialEq::ne"):
            continue
        ls = [op_local(a) for a in c.args]
        hit = [l for l in ls if l is not None and (common.origins(f, l) & il)]
        if hit:
            other = [l for l in ls if l not in hit]
            out.append((c, other[0] if other else None))
    return out


def sinks_in(F, f):
    return [c for c in f.normal_calls() if SINK_PAT.match(c.resolved or "") or SINK_PAT.match(c.static or "")]


def rule_must_pass(F, ctx, prop):
    """AUTH-3: every path of execute_program to an executor passes authorize_program_lines (error propagated),
    called with the refreshed identity, the request's program text and the request's knowledge graph."""
    f = F.fn(EP)
    ctx.rule("R-AUTH-3", "every path of execute_program to an executor sink passes the per-statement authorization", floor=10)
    auth = [c for c in f.normal_calls() if c.resolved == APL]
    snk = sinks_in(F, f)
    if len(snk) < 10:
        raise CheckError("execute_program: only %d executor sinks found" % len(snk))
    if not auth:
        ctx.site("authorize_program_lines call", f.where(), ok=False)
        ctx.violation(EP + ":R-AUTH-3:no-program-authorization", "execute_program does not call the per-statement authorization", f.where())
        ctx.end_rule()
        return
    a = auth[0]
    prop_ok, _ = common.err_propagated(f, a)
    ctx.site("authorization error is propagated (`?`)", a.where(), ok=prop_ok)
    if not prop_ok:
        ctx.violation(EP + ":R-AUTH-3:auth-result-ignored", "the result of authorize_program_lines is not propagated: a denied program still executes", a.where())
    for s in snk:
        ok = any(f.dominates(x.bb, s.bb) and x.bb != s.bb for x in auth)
        ctx.site("sink %s" % (s.resolved or s.static).split("::")[-1], s.where(), ok=ok)
        if not ok:
            ctx.violation("%s:R-AUTH-3:unauthorized-path:%s" % (EP, (s.resolved or s.static).split("::")[-1]), "execute_program reaches %s on a path that does not pass the per-statement authorization" % (s.resolved or s.static).split("::")[-1], s.where())
    # arguments: identity <- refresh_user_role-derived (effective_auth), program <- program param,
    # targets <- explicit knowledge_graph param AND the session's graph AND the engine's current graph (fallback)
    prog = f.need_local("program")
    kgp = f.need_local("knowledge_graph")
    ident_src = [c for c in f.normal_calls() if c.resolved == H + "::refresh_user_role"]
    d_prog = f.derive({prog}, through_calls=True) if prog is not None else set()
    d_kg = f.derive({kgp}, through_calls=True) if kgp is not None else set()
    d_id = set()
    for c in ident_src:
        d_id |= f.derive({c.dst["l"]}, through_calls=True)
    skg = [c for c in f.normal_calls() if c.resolved == "session::SessionManager::session_kg" and f.dominates(c.bb, a.bb)]
    cur = [c for c in f.normal_calls() if c.resolved == "storage_engine::StorageEngine::current_knowledge_graph" and f.dominates(c.bb, a.bb) or (c.resolved == "storage_engine::StorageEngine::current_knowledge_graph" and a.bb in f.reachable_from([c.bb]))]
    d_s, d_c = set(), set()
    for c in skg:
        d_s |= f.derive({c.dst["l"]}, through_calls=True)
    for c in f.normal_calls():
        if c.resolved == "session::SessionManager::session_kg" and a.bb in f.reachable_from([c.bb]):
            d_s |= f.derive({c.dst["l"]}, through_calls=True)
    for c in cur:
        d_c |= f.derive({c.dst["l"]}, through_calls=True)
    # the session's graph is looked up inside a closure handed to Option::and_then: taint the result of that call
    import re as _re
    for bbx in dur.closure_call_sites(F, f, _re.compile(r"^session::SessionManager::session_kg$")):
        if a.bb in f.reachable_from([bbx]):
            d_s |= f.derive({f.term(bbx)["dst"]["l"]}, through_calls=True)
    ok = len(a.args) >= 4 and op_local(a.args[1]) in d_id and op_local(a.args[2]) in d_prog
    t_l = op_local(a.args[3]) if len(a.args) >= 4 else None
    ok_t = t_l is not None and t_l in d_kg and t_l in d_s and t_l in d_c
    ctx.site("authorization receives the refreshed identity and the program text", a.where(), ok=ok)
    if not ok:
        ctx.violation(EP + ":R-AUTH-3:wrong-arguments", "authorize_program_lines is not called with the refreshed identity and the submitted program text", a.where())
    ctx.site("authorization targets cover the explicit graph, the session's graph and the engine's current graph", a.where(), ok=ok_t, explicit=t_l in d_kg if t_l is not None else None, session=t_l in d_s if t_l is not None else None, fallback=t_l in d_c if t_l is not None else None)
    if not ok_t:
        ctx.violation(EP + ":R-AUTH-3:target-graphs-incomplete", "the set of knowledge graphs handed to the authorization does not cover every graph the executor may run the statement on (explicit graph, the session's graph, and the engine's current graph when neither is given)", a.where())
    ctx.end_rule()


def rule_same_unit(F, ctx):
    """AUTH-2: authorization and execution segment the program identically."""
    ctx.rule("R-AUTH-2", "authorization and executor segment the program with the same functions, in the same nesting, and parse each segment", floor=2)

    def shape(f):
        sc = [c for c in f.normal_calls() if c.resolved == SEG[0]]
        jc = [c for c in f.normal_calls() if c.resolved == SEG[1]]
        ln = [c for c in f.normal_calls() if _LINES.match(c.static or "")]
        ps = [c for c in f.normal_calls() if c.resolved == PARSE]
        loops = dur.loop_blocks(f)
        nest = False
        if sc and jc and ln:
            ds = f.derive({sc[0].dst["l"]}, through_calls=True, stop_calls=[SEG[1]])
            nest = any(op_local(j.args[0]) in ds for j in jc)
            dj = set()
            for j in jc:
                dj |= f.derive({j.dst["l"]}, through_calls=True, stop_calls=[PARSE])
            nest = nest and all(op_local(l.args[0]) in dj for l in ln)
            # every parse inside a loop takes a segment derived from lines()
            dl = set()
            for l in ln:
                dl |= f.derive({l.dst["l"]}, through_calls=True, stop_calls=[PARSE])
            in_loop = [p for p in ps if p.bb in loops]
            nest = nest and bool(in_loop) and all(op_local(p.args[0]) in dl for p in in_loop)
        trims = len([c for c in f.normal_calls() if (c.static or "") == "core::str::<impl str>::trim" and c.bb in loops])
        empt = len([c for c in f.normal_calls() if (c.static or "") == "core::str::<impl str>::is_empty" and c.bb in loops])
        return {"strip_comments": len(sc), "join_continuation_lines": len(jc), "lines_loops": len(ln), "nesting_ok": nest, "trim_in_loop": trims > 0, "skip_empty": empt > 0}

    a, e = F.fn(APL), F.fn(QJ)
    sa, se = shape(a), shape(e)
    ok = sa["nesting_ok"] and se["nesting_ok"] and sa["strip_comments"] >= 1 and se["strip_comments"] >= 1 and sa["trim_in_loop"] == se["trim_in_loop"] and sa["skip_empty"] == se["skip_empty"]
    ctx.site("segmentation of authorize_program_lines", a.where(), ok=ok, shape=sa)
    ctx.site("segmentation of QueryJob::execute", e.where(), ok=ok, shape=se)
    if not ok:
        ctx.violation(APL + ":R-AUTH-2:segmentation-differs", "authorization and executor no longer split the program into statements the same way (%s vs %s): a statement can be executed that was never authorized" % (sa, se), a.where())
    # the program the authorization segments is its own `program` parameter
    p = a.need_local("program")
    sc = [c for c in a.normal_calls() if c.resolved == SEG[0]]
    ok = p is not None and sc and all(op_local(c.args[0]) in a.derive({p}, through_calls=False) for c in sc)
    ctx.site("authorization segments its program parameter", a.where(), ok=bool(ok))
    if not ok:
        ctx.violation(APL + ":R-AUTH-2:other-text", "authorize_program_lines does not segment its own `program` parameter", a.where())
    ctx.end_rule()


def rule_no_bypass(F, ctx):
    """AUTH-1: inside the per-line loop: parsed -> authorized (propagated) before the next line; unparsable -> the program is rejected."""
    f = F.fn(APL)
    ctx.rule("R-AUTH-1", "per line: Ok(stmt) is authorized before the next line; Err(_) forces rejection of the whole program", floor=2)
    loops = dur.loop_blocks(f)
    ps = [c for c in f.normal_calls() if c.resolved == PARSE and c.bb in loops]
    if not ps:
        raise CheckError("authorize_program_lines: no parse_statement call inside a loop")
    p = ps[0]
    res = f.derive({p.dst["l"]}, through_calls=False)
    sws = [s for s in f.enum_switches("std::result::Result") if s[2]["l"] in res]
    if not sws:
        raise CheckError("authorize_program_lines: result of parse_statement is not matched")
    (bb, adt, pl, mm, other) = sorted(sws, key=lambda s: s[0])[0]
    ok_t, err_t = mm.get("Ok"), mm.get("Err", other)
    if ok_t is None:
        ok_t = other
    aos = [c for c in f.normal_calls() if c.resolved == AOS]
    nexts = [c.bb for c in f.normal_calls() if (c.static or "") == "std::iter::Iterator::next" and c.bb in loops and "std::str::Lines" in (c.static_args or "")]
    if not nexts:
        raise CheckError("authorize_program_lines: the loop over lines() was not found")
    rets, eb = f.success_returns()
    # Ok arm: cannot reach the next iteration or a success return without passing authorize_one_statement
    stop = set(eb) | {c.bb for c in aos}
    leak = f.path(ok_t, set(nexts) | set(rets), stop=stop)
    okk = bool(aos) and leak is None and all(common.err_propagated(f, c)[0] for c in aos)
    # the statement authorized is the parsed one
    if okk:
        okk = all(any(op_local(x) in f.derive({p.dst["l"]}, through_calls=False) for x in c.args) for c in aos)
    ctx.site("Ok(stmt) arm authorizes the parsed statement before the next line", f.where(ok_t), ok=okk)
    if not okk:
        ctx.violation(APL + ":R-AUTH-1:parsed-statement-not-authorized", "a parsed line can reach the next line (or the Ok return) without authorize_one_statement on that statement, or its denial is not propagated", f.where(ok_t), detail="witness %s" % leak)
    # Err arm: pushes into a vector V; every success return is dominated by the true edge of V.is_empty(); V only grows
    pushes = [c for c in f.normal_calls() if re.search(r"Vec::<.*ValidationError>::push$", c.static_args or "") and c.bb in f.reachable_from([err_t], stop={ok_t})]
    emp = [c for c in f.normal_calls() if re.search(r"Vec::<.*ValidationError>::is_empty$", c.static_args or "")]
    shrink = [c for c in f.normal_calls() if re.search(r"Vec::<.*ValidationError>::(clear|pop|truncate|remove|drain|retain)", c.static_args or "")]
    oke = bool(pushes) and bool(emp) and not shrink
    if oke:
        good = False
        for c in emp:
            br = common.branch_on_result(f, c)
            okb = common.ok_blocks(f)
            if br and okb and all(f.dominates(br[2], r) for r in okb):
                good = True
        # the Err arm must reach the push on every path back to the loop head
        leak2 = f.path(err_t, set(nexts) | set(rets), stop=set(eb) | {c.bb for c in pushes})
        oke = good and leak2 is None
    ctx.site("Err(_) arm records the failure; Ok(()) only if no failure was recorded", f.where(err_t), ok=oke)
    if not oke:
        ctx.violation(APL + ":R-AUTH-1:unparsable-line-not-rejected", "a line that fails to parse does not force rejection of the program: it is skipped by authorization while the executor may still run it (fail open)", f.where(err_t))
    ctx.end_rule()


def rule_kg_tracking(F, ctx):
    """AUTH-4: the set of graphs each statement is checked against follows .kg use/.kg create of earlier lines,
    and the statement is checked against every member of the set."""
    f = F.fn(APL)
    ctx.rule("R-AUTH-4", "the graphs a statement is authorized against follow KgUse/KgCreate of earlier lines; every member is checked", floor=3)
    loops = dur.loop_blocks(f)
    aos = [c for c in f.normal_calls() if c.resolved == AOS]
    ps = [c for c in f.normal_calls() if c.resolved == PARSE and c.bb in loops]
    if not aos or not ps:
        raise CheckError("authorize_program_lines: anchors missing")
    init = f.need_local("initial_targets")
    tg = f.need_local("targets")
    if init is None or tg is None:
        raise CheckError("authorize_program_lines: locals initial_targets/targets not found")
    from_stmt = f.derive({ps[0].dst["l"]}, through_calls=True, stop_calls=[AOS])
    d_t = f.derive({tg}, through_calls=True, stop_calls=[AOS, PARSE])
    # (1) initialised from the parameter
    ok1 = tg in f.derive({init}, through_calls=False)
    # (2) every authorization call takes its graph from `targets`
    def is_none(local):
        """the operand is a literal Option::None (the `no graph known` case)"""
        for o in (common.origins(f, local) | {local}) if local is not None else ():
            for i_ in range(f.n):
                for st in f.stmts(i_):
                    rv = st["r"]
                    if st["d"]["l"] == o and not proj(st["d"]) and rv.get("k") == "agg" and rv.get("adt") == "std::option::Option" and rv.get("var") == "None":
                        return True
        return False
    ok2 = all(len(c.args) > 3 and (op_local(c.args[3]) in d_t or is_none(op_local(c.args[3])) or (op_local(c.args[3]) is None and "None" in str(c.args[3]))) for c in aos)
    # one call outside any inner loop over targets (executed for every parsed statement) + one inside a loop over the rest
    inner = []
    for c in aos:
        # inner loop: the call sits in a cycle that does not contain the parse call
        cyc = c.bb in f.reachable_from([c.target] if c.target is not None else [], stop={ps[0].bb})
        inner.append(cyc)
    # the members are walked by a loop over (a view of) targets; that every parsed line is authorized at least once,
    # whatever the size of the set, is R-AUTH-1's must-pass obligation
    ok2 = ok2 and any(inner)
    # (3) updates under the KgUse / KgCreate arms, from the parsed statement
    upd = {}
    for (bb, adt, pl, mm, other) in f.enum_switches("statement::meta::MetaCommand"):
        for k in ("KgUse", "KgCreate"):
            if k not in mm:
                continue
            region = f.arm_region(list(mm.values()) + [other], mm[k], stop={bb})
            hit = False
            for i in region:
                for st in f.stmts(i):
                    if st["d"]["l"] == tg and not proj(st["d"]):
                        ops = [op_local(o) for o in (st["r"].get("ops") or [st["r"].get("o")]) if o]
                        if any(o in from_stmt for o in ops):
                            hit = True
                t = f.term(i)
                if t["k"] == "call":
                    c = Call(f, i, t)
                    if re.search(r"Vec::<std::string::String>::push$", c.static_args or "") and op_local(c.args[0]) in d_t and op_local(c.args[1]) in from_stmt:
                        hit = True
                    if not proj(t["dst"]) and t["dst"]["l"] == tg and any(op_local(x) in from_stmt for x in t["args"]):
                        hit = True
            upd[k] = upd.get(k, False) or hit
    ok3 = upd.get("KgUse", False) and upd.get("KgCreate", False)
    ctx.site("targets initialised from the request's graphs", f.where(), ok=ok1)
    ctx.site("every authorization call takes its graph from targets (or None when no graph is known); the members are walked by a loop", f.where(), ok=ok2, calls=len(aos))
    ctx.site("targets updated under KgUse and KgCreate from the parsed statement", f.where(), ok=ok3, updates=upd)
    if not (ok1 and ok2 and ok3):
        ctx.violation(APL + ":R-AUTH-4:kg-not-tracked", "the knowledge graphs used for the per-KG role lookup do not follow the program (initialised from the request: %s; every member checked: %s; updated on .kg use/.kg create: %s): later statements are authorized against the wrong graph" % (ok1, ok2, ok3), f.where())
    ctx.end_rule()


def rule_role_checks(F, ctx):
    """authorize_one_statement: global-role check and per-KG role check on every non-admin success path."""
    f = F.fn(AOS)
    ctx.rule("R-AUTH-6", "authorize_one_statement: global role, then per-KG role for the statement's target graph, on every non-admin success path", floor=3)
    ident = f.need_local("identity")
    gs = [c for c in f.normal_calls() if c.resolved == "auth::authorize_statement"]
    ks = [c for c in f.normal_calls() if c.resolved == "auth::authorize_kg_operation"]
    gr = [c for c in f.normal_calls() if c.resolved == H + "::get_kg_role_for_user"]
    # angelic: identity == None (no authentication configured)
    none_t = []
    for (bb, adt, pl, mm, other) in f.enum_switches("std::option::Option"):
        if "Some" in mm and pl.get("l") == 2 and not pl.get("p"):
            none_t.append(mm.get("None", other))
            ctx.angelic_guard("identity is None (authentication disabled): no role to check", f.where(bb))
    ok1, w1 = dur.must_pass(f, [c.bb for c in gs], extra_stop=none_t)
    ok1 = ok1 and bool(gs) and all(common.err_propagated(f, c)[0] for c in gs)
    ctx.site("authorize_statement on every authenticated success path", f.where(), ok=ok1)
    if not ok1:
        ctx.violation(AOS + ":R-AUTH-6:global-role-skipped", "an authenticated statement can be accepted without the global-role check (authorize_statement), or its denial is dropped", f.where(), detail="witness %s" % w1)
    # admin short-cut: the true edge of `role == Admin`
    admin_t = []
    for c in f.normal_calls():
        if (c.static_args or "").startswith("<auth::Role as std::cmp::PartialEq>::eq"):
            br = common.branch_on_result(f, c)
            if br:
                admin_t.append(br[2])
                ctx.angelic_guard("identity.role == Admin (admins are implicit owners of every graph)", f.where(br[0]))
    # target_kg == None (global commands: kg list/show/help/status/quit/create)
    tnone = []
    tk = f.need_local("target_kg")
    for (bb, adt, pl, mm, other) in f.enum_switches("std::option::Option"):
        if "Some" in mm and tk is not None and pl.get("l") == tk and not pl.get("p"):
            tnone.append(mm.get("None", other))
            ctx.angelic_guard("target_kg is None (statement kinds that act on no knowledge graph)", f.where(bb))
    ok2, w2 = dur.must_pass(f, [c.bb for c in ks], extra_stop=none_t + admin_t + tnone)
    ok2 = ok2 and bool(ks) and bool(gr) and all(common.err_propagated(f, c)[0] for c in ks)
    if ok2:
        # the role handed to authorize_kg_operation comes from the lookup for target_kg / identity
        dr = set()
        for c in gr:
            dr |= f.derive({c.dst["l"]}, through_calls=True, stop_calls=["auth::authorize_kg_operation"])
        ok2 = all(op_local(c.args[0]) in dr for c in ks)
        dk = f.derive({tk}, through_calls=True, stop_calls=[H + "::get_kg_role_for_user"]) if tk is not None else set()
        ok2 = ok2 and all(op_local(c.args[1]) in dk for c in gr) and all(any(op_local(a) in f.derive({ident}, through_calls=True, stop_calls=[H + "::get_kg_role_for_user"]) for a in c.args[2:]) for c in gr)
    ctx.site("per-KG role check for the statement's target graph on every non-admin success path", f.where(), ok=ok2)
    if not ok2:
        ctx.violation(AOS + ":R-AUTH-6:kg-role-skipped", "a non-admin statement acting on a knowledge graph can be accepted without authorize_kg_operation with the caller's role on that graph", f.where(), detail="witness %s" % w2)
    # a missing ACL entry denies
    ok3 = False
    for c in gr:
        res = f.derive({c.dst["l"]}, through_calls=False)
        for (bb, adt, pl, mm, other) in f.enum_switches("std::option::Option"):
            if pl.get("l") in res and "None" in mm:
                rets, eb = f.success_returns()
                if not any(r in f.reachable_from([mm["None"]], stop=eb) for r in rets):
                    ok3 = True
    ctx.site("no role on the target graph => denied", f.where(), ok=ok3)
    if not ok3:
        ctx.violation(AOS + ":R-AUTH-6:no-acl-allowed", "a caller without any role on the target knowledge graph is not denied", f.where())
    ctx.end_rule()


def rule_internal_guard(F, ctx):
    """C29: the system knowledge graph is unreachable for non-admins."""
    f = F.fn(AOS)
    ctx.rule("R-AUTH-7", "system-KG guard in authorize_one_statement: explicit use/create/drop, current graph and target graph are each compared with INTERNAL_KG and denied", floor=3)
    cmps = internal_comparisons(f)
    rets, eb = f.success_returns()
    kinds = {"explicit": False, "current": False, "target": False}
    cur = f.need_local("current_kg")
    tk = f.need_local("target_kg")
    for (c, other) in cmps:
        br = common.branch_on_result(f, c)
        if not br:
            continue
        denies = not any(r in f.reachable_from([br[2]], stop=eb) for r in rets)
        if not denies:
            continue
        org = common.origins(f, other) if other is not None else set()
        if tk is not None and tk in org:
            kinds["target"] = True
        elif cur is not None and cur in org:
            kinds["current"] = True
        else:
            # operand comes out of the statement pattern (KgUse/KgDrop/KgCreate payload)
            if any(any(isinstance(e, dict) and e.get("v") in ("KgUse", "KgDrop", "KgCreate") for e in (st["r"].get("p", {}).get("p") or [])) for i in range(f.n) for st in f.stmts(i) if st["d"]["l"] in org and st["r"].get("k") == "ref"):
                kinds["explicit"] = True
            elif tk is not None:
                # payload of Some(kg) of target_kg
                for i in range(f.n):
                    for st in f.stmts(i):
                        if st["d"]["l"] in org and st["r"].get("k") == "use":
                            p = op_place(st["r"]["o"])
                            if p and p["l"] == tk:
                                kinds["target"] = True
    # the explicit arms must cover the three commands
    cover = set()
    for (bb, adt, pl, mm, other) in f.enum_switches("statement::meta::MetaCommand"):
        for (c, o) in cmps:
            for k, t in mm.items():
                if k in ("KgUse", "KgDrop", "KgCreate") and c.bb in f.reachable_from([t]):
                    cover.add(k)
    kinds["explicit"] = kinds["explicit"] and cover >= {"KgUse", "KgDrop", "KgCreate"}
    for k, v in kinds.items():
        ctx.site("INTERNAL_KG guard: %s" % k, f.where(), ok=v)
        if not v:
            what = {"explicit": "an explicit .kg use/.kg create/.kg drop naming the system knowledge graph is not denied",
                    "current": "a statement acting on the current graph is not denied when the current graph is the system knowledge graph",
                    "target": "a statement whose target graph (e.g. ACL commands naming a graph) is the system knowledge graph is not denied"}[k]
            ctx.violation(AOS + ":R-AUTH-7:internal-guard:%s" % k, what, f.where())
    # the `current` and `target` guards must sit before the per-KG lookup and after the admin short-cut only
    ctx.end_rule()


def rule_who_may_call(F, ctx):
    """AUTH-5: executors are reached from network entry points only through execute_program (legacy endpoint listed)."""
    ctx.rule("R-AUTH-5", "query_program / query_program_with_session are called only from execute_program (and each other); legacy endpoints listed", floor=3)
    allowed = {
        H + "::query_program": {EP, H + "::query_program_with_session::{closure#0}"},
        H + "::query_program_with_session": {EP, "protocol::rest::handlers::ws::handle_ws_query::{closure#0}"},
    }
    legacy = {"protocol::rest::handlers::ws::handle_ws_query::{closure#0}": "per-session WebSocket endpoint /sessions/:id/ws: bound to one session's knowledge graph, carries no identity (outside the property's observation point, execute_program)"}
    for callee, ok_callers in allowed.items():
        for c in F.call_sites_of(callee):
            n = c.fn.name
            if n.startswith(callee):
                continue
            ok = n in ok_callers
            ctx.site("%s called from %s" % (callee.split("::")[-1], n), c.where(), ok=ok)
            if n in legacy:
                ctx.exempt(n, legacy[n])
            if not ok:
                ctx.violation("%s:R-AUTH-5:unauthorized-entry:%s" % (n, callee.split("::")[-1]), "%s executes programs through %s without going through execute_program's authorization" % (n, callee.split("::")[-1]), c.where())
    ctx.end_rule()
