"""C04 - answers are independent of clause order / history; queries never change stored facts (effect clause)."""
import re
from ..core import CheckError
from . import common, c20, c28

KG = "storage_engine::KnowledgeGraph"
SE = "storage_engine::StorageEngine"
SNAPSHOT = "storage_engine::snapshot::KnowledgeGraphSnapshot"


def run(F, ctx):
    ctx.explanation = (
        "Decides the effect clause - executing a query never changes stored base facts, rules or schemas: from every read entry point (each StorageEngine function "
        "that loads a snapshot, and every public executor of KnowledgeGraphSnapshot) the call graph (with class-hierarchy expansion of dyn calls, closure and fn-item "
        "edges) reaches no durable-state sink, no KnowledgeGraph mutator of served state and no snapshot publication; queries run on a per-query engine built from the "
        "immutable snapshot; the KnowledgeGraph methods that evaluate on the graph's own engine have no caller. "
        "At the level of the query engine itself (a reused IQLEngine), what a run adds to the engine's own facts - magic-set seeds - is removed again on every exit of the run. "
        "Not decided: independence of answers from clause order / repetition (value-level; HashMap iteration order)."
    )
    muts = set(c20.kg_mutators(F)) | {c20.PUB}
    write_entries = {SE + "::" + x for x in ("insert_tuples_into", "delete_tuples_from", "insert_tuples", "delete_tuples")}
    ctx.rule("R-C04-a", "no read entry point reaches a durable-state sink, a mutator of served state or a snapshot publication", floor=12)
    entries = sorted(set(F.callers(c20.SNAP)))
    for n in sorted(F.bodies):
        if n.startswith(SNAPSHOT + "::execute") and "{closure" not in n and F.fn(n).b.get("vis") == "pub":
            entries.append(n)
    cg_unknown = len(F.unknown_callees or [])
    for e in entries:
        root = e.split("::{closure")[0]
        if root in (SE + "::get_snapshot_for", SE + "::get_rules_and_data"):
            pass
        reach = F.reach([e])
        bad = None
        for r in reach:
            if r in muts or r in write_entries:
                bad = (r, F.reach_path(e, [r]))
                break
        if bad is None:
            for r in reach:
                rf = F.fn(r)
                for c in rf.calls():
                    for nm in (c.resolved, c.static):
                        if nm and any(p.match(nm) for p in c28.SINKS):
                            bad = (nm, (F.reach_path(e, [r]) or [e, r]) + [nm])
                            break
                    if bad:
                        break
                if bad:
                    break
        ex = None
        if bad and bad[1]:
            ex = c28.exemption("query", bad[1])
        if bad and ex:
            ctx.exempt("%s -> %s" % (e.split("::")[-1], bad[0].split("::")[-1]), ex)
            # look for any *other* sink ignoring the exempted edge
            reach2 = F.reach([e], stop={"storage_engine::StorageEngine::create_knowledge_graph"})
            bad = None
            for r in reach2:
                if r in muts or r in write_entries:
                    bad = (r, F.reach_path(e, [r], stop={"storage_engine::StorageEngine::create_knowledge_graph"}))
                    break
                rf = F.fn(r)
                for c in rf.calls():
                    for nm in (c.resolved, c.static):
                        if nm and any(p.match(nm) for p in c28.SINKS):
                            bad = (nm, (F.reach_path(e, [r], stop={"storage_engine::StorageEngine::create_knowledge_graph"}) or [e, r]) + [nm])
                    if bad:
                        break
                if bad:
                    break
        ctx.site("read entry %s" % e.replace("storage_engine::", ""), F.fn(e).where(), ok=bad is None, reachable_functions=len(reach))
        if bad:
            ctx.violation("%s:R-C04-a:query-reaches-writer:%s" % (root, bad[0].split("::")[-1]), "the read path %s can reach %s: executing a query may change stored state" % (root.split("::")[-1], " -> ".join(bad[1] or [bad[0]])), F.fn(e).where())
    ctx.extra["unknown_indirect_callees_in_crate"] = cg_unknown
    ctx.end_rule()

    ctx.rule("R-C04-c", "evaluation on the graph's own engine (KnowledgeGraph::execute*) has no caller in the crate", floor=1)
    for n in sorted(F.bodies):
        if n.startswith(KG + "::execute") and "{closure" not in n:
            callers = [c for c in F.callers(n) if not c.startswith(KG + "::execute")]
            ctx.site("%s callers" % n.split("::")[-1], F.fn(n).where(), ok=not callers, callers=callers)
            if callers:
                ctx.violation("%s:R-C04-c:own-engine-query" % n, "%s (which evaluates on the knowledge graph's own engine, under &mut) is now called from %s: a query can leave state behind in the served engine" % (n.split("::")[-1], callers), F.fn(n).where())
    ctx.end_rule()

    # ---- d: what a run adds to the engine's own facts is removed when the run ends
    from . import dur
    from ..core import op_local
    ENG = "IQLEngine"
    ctx.rule("R-C04-d", "a run of the query engine leaves the engine's facts as it found them: every write to input_tuples on the query path is undone on every exit of the run", floor=1)
    qpath = F.reach([ENG + "::execute_tuples", ENG + "::execute_tuples_with_derived", ENG + "::execute_tuples_profiled"])
    writers, removers = [], []
    for n in sorted(qpath):
        if not n.startswith(ENG + "::") or n not in F.bodies:
            continue
        f = F.fn(n)
        acc = [(bb, kind) for (bb, kind, a2, fld, line, pl) in f.field_accesses() if a2 == ENG and fld == "input_tuples" and kind in ("w", "wb", "wp")]
        if not acc:
            continue
        removes = [c for c in f.normal_calls() if re.search(r"HashMap::<std::string::String, std::vec::Vec<value::Tuple>>::remove(::<.*>)?$", c.static_args or "")]
        adds = [c for c in f.normal_calls() if re.search(r"HashMap::<std::string::String, std::vec::Vec<value::Tuple>>::(insert|entry)$", c.static_args or "")]
        if adds:
            writers.append(n)
        if removes and not adds:
            removers.append(n)
    if not writers:
        ctx.site("no function on the query path adds to the engine's input_tuples", F.fn(ENG + "::execute_tuples_profiled").where(), ok=True)
    for w in writers:
        # entries that (transitively) call the writer must call a remover after it on every exit
        ok = False
        where = F.fn(w).where()
        for e_ in sorted(qpath):
            if not e_.startswith(ENG + "::") or e_ not in F.bodies or "{closure" in e_:
                continue
            ef = F.fn(e_)
            rm = [c for c in ef.normal_calls() if c.resolved in removers]
            inner = [c for c in ef.normal_calls() if c.resolved and c.resolved != w and c.resolved in F.bodies and w in F.reach([c.resolved]) and c.resolved not in removers]
            if rm and inner:
                good = True
                for c in inner:
                    okp, wit = dur.must_pass(ef, [x.bb for x in rm], start=c.target if c.target is not None else c.bb)
                    # also when the inner call fails: the remover is not confined to the success side
                    err_ok = ef.path(c.target, [r_ for r_ in ef.return_blocks()], stop={x.bb for x in rm}) is None if c.target is not None else False
                    good = good and okp and err_ok
                if good:
                    ok = True
                    where = ef.where()
        ctx.site("%s adds facts to the engine during a run; a caller removes them on every exit" % w.split("::")[-1], where, ok=ok, removers=[r_.split("::")[-1] for r_ in removers])
        if not ok:
            ctx.violation("%s:R-C04-d:run-leaves-facts-in-the-engine" % w, "%s writes into the engine's input_tuples during a query run (magic-set seeds) and nothing removes them when the run ends: a reused engine shows base facts nobody inserted, and a later program on the same engine returns other rows than on a fresh one" % w.split("::")[-1], F.fn(w).where())
    ctx.end_rule()
