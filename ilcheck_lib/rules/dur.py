"""Durability rule family (shared by C13, C16): sync-before-ack, atomic replace,
rename/unlink durability, step ordering, recovery tolerance."""
import re
from ..core import CheckError, Call, op_local, op_place, op_const, proj, place_fields
from . import common

P_WRITE = re.compile(r"^std::fs::write(::<.*>)?$")
P_CREATE = re.compile(r"^std::fs::File::create(::<.*>)?$")
P_OPEN = re.compile(r"^std::fs::OpenOptions::open(::<.*>)?$")
P_APPEND = "std::fs::OpenOptions::append"
P_CREATE_NEW = "std::fs::OpenOptions::create_new"
P_SYNC = re.compile(r"^std::fs::File::(sync_all|sync_data)$")
P_RENAME = re.compile(r"^std::fs::rename(::<.*>)?$")
P_REMOVE = re.compile(r"^std::fs::remove_file(::<.*>)?$")
P_FOPEN = re.compile(r"^std::fs::File::open(::<.*>)?$")
SYNC_DIR = "storage::persist::sync_directory"


def m(c, pat):
    return c.matches([pat])


def closure_call_sites(F, f, pat):
    """blocks of `f` that hand a closure (defined inside f) whose body calls `pat` to a call:
    e.g. File::open(p).and_then(|f| f.sync_all())  ->  the and_then call block counts as a sync site"""
    out = []
    clos = {}
    for i in range(f.n):
        for st in f.stmts(i):
            rv = st["r"]
            if rv.get("k") == "agg" and rv.get("ak") == "closure" and rv["def"] in F.bodies:
                g = F.fn(rv["def"])
                if any(m(c, pat) for c in g.normal_calls()):
                    clos[st["d"]["l"]] = rv["def"]
    if not clos:
        return out
    for c in f.normal_calls():
        for a in c.args:
            l = op_local(a)
            if l is not None and (common.origins(f, l) & set(clos)):
                out.append(c.bb)
        # closures that capture nothing are passed as ZST constants
        for a in c.args:
            if a.get("clo") and a["clo"] in F.bodies:
                g = F.fn(a["clo"])
                if any(m(x, pat) for x in g.normal_calls()):
                    out.append(c.bb)
    return out


_SYNC_WRAPPER = {}


def is_sync_wrapper(F, name, depth=0):
    """a crate function all of whose success paths sync a file (e.g. `fn sync_path(p) { File::open(p)?.sync_all() }`):
    a call of it counts as a sync site (wrapper summary, inlining bound 2)"""
    if name in _SYNC_WRAPPER:
        return _SYNC_WRAPPER[name]
    _SYNC_WRAPPER[name] = False
    if name not in F.bodies or depth > 2 or name == SYNC_DIR:
        return False
    g = F.fn(name)
    if g.n > 40:
        return False
    bbs = sync_sites(F, g, depth + 1)
    ok = bool(bbs) and must_pass(g, bbs)[0]
    _SYNC_WRAPPER[name] = ok
    return ok


def sync_sites(F, f, depth=0):
    s = [c.bb for c in f.normal_calls() if m(c, P_SYNC)]
    s += closure_call_sites(F, f, P_SYNC)
    if depth <= 2:
        for c in f.normal_calls():
            r = c.resolved
            if r and r in F.bodies and r != f.name and not m(c, P_SYNC) and is_sync_wrapper(F, r, depth):
                s.append(c.bb)
    return sorted(set(s))


def write_opens(f):
    """write-opening calls with their discipline: ('write'|'create'|'open', call, is_append, is_create_new)"""
    out = []
    for c in f.normal_calls():
        if m(c, P_WRITE):
            out.append(("write", c, False, False))
        elif m(c, P_CREATE):
            out.append(("create", c, False, False))
        elif m(c, P_OPEN):
            # flags set on the builder chain that feeds this open
            app = cn = wr = tr = False
            for o in f.normal_calls():
                if o.static in (P_APPEND, P_CREATE_NEW, "std::fs::OpenOptions::write", "std::fs::OpenOptions::truncate", "std::fs::OpenOptions::create"):
                    cv = op_const(o.args[1]) if len(o.args) > 1 else None
                    on = cv is not None and cv[1] == "1"
                    if f.dominates(o.bb, c.bb) and on:
                        if o.static == P_APPEND:
                            app = True
                        elif o.static == P_CREATE_NEW:
                            cn = True
                        elif o.static == "std::fs::OpenOptions::truncate":
                            tr = True
                            wr = True
                        else:
                            wr = True
            if app or cn or wr:
                out.append(("open" if (tr or app or cn) else "open-no-truncate", c, app, cn))
    return out


def dir_sync_sites(F, f):
    s = [c.bb for c in f.normal_calls() if c.resolved == SYNC_DIR]
    return s


def error_only_blocks(f):
    """blocks from which every path to a return passes an error block (or that cannot return normally)"""
    rets, eb = f.success_returns()
    ok = set()
    # backward reachability from success returns avoiding error blocks
    work = list(rets)
    seen = set(rets)
    while work:
        b = work.pop()
        for p in f.pred(b):
            if p not in seen and p not in eb:
                seen.add(p)
                work.append(p)
    return set(range(f.n)) - seen


def check_atomic_replace(F, ctx, name, prop):
    """the function overwrites a durable file: write temp -> sync -> rename -> directory sync; nothing after"""
    f = F.fn(name)
    wo = [w for w in write_opens(f) if not w[2]]
    ren = [c for c in f.normal_calls() if m(c, P_RENAME)]
    ss = sync_sites(F, f)
    where = f.where()
    problems = []
    if not wo:
        raise CheckError("%s: no write-open found (anchor changed)" % name)
    for (kind, w, app, cn) in wo:
        if kind == "open-no-truncate":
            problems.append(("temp-not-truncated", "the temp file is opened for writing without truncate(true): a longer stale temp file left by a crash keeps its tail, and the mixed file is renamed over the live one", w.where()))
        if cn:
            problems.append(("temp-create-new", "the temp file is opened with create_new(true): a stale temp file left by a crash makes every later save (and recovery's WAL drain) fail with AlreadyExists", w.where()))
    if not ren:
        problems.append(("in-place-write", "the durable file is written in place (no write-to-temp + rename): a crash after the truncation leaves an empty or partial file", wo[0][1].where()))
    else:
        eo = error_only_blocks(f)
        for r in ren:
            if r.bb in eo:
                continue
            # some write dominates a sync that dominates the rename
            chain = [(w, s) for (_k, w, _a, _c) in wo for s in ss if f.dominates(w.bb, s) and f.dominates(s, r.bb) and s != r.bb]
            if not chain:
                problems.append(("rename-before-sync", "the temp file is renamed over the durable file without a preceding sync_all of its contents (write -> sync -> rename order broken)", r.where()))
            # the written path is the rename source, not its destination
            for (_k, w, _a, _c) in wo:
                if not f.dominates(w.bb, r.bb):
                    continue
                wp = common.origins(f, op_local(w.args[0])) if w.args and op_local(w.args[0]) is not None else set()
                dst = common.origins(f, op_local(r.args[1])) if op_local(r.args[1]) is not None else set()
                src = common.origins(f, op_local(r.args[0])) if op_local(r.args[0]) is not None else set()
                # ignore shared ancestors (e.g. both built from `dir`): compare the immediate path locals
                wl, dl, sl = op_local(w.args[0]), op_local(r.args[1]), op_local(r.args[0])
                if wl is not None and dl is not None:
                    w0 = first_named(f, wp)
                    d0 = first_named(f, dst)
                    s0 = first_named(f, src)
                    if w0 is not None and d0 is not None and w0 == d0 and w0 != s0:
                        problems.append(("writes-final-path", "the write goes to the rename *destination* (the live file), not to the temp file", w.where()))
            # directory sync after the rename
            ds = [b for b in dir_sync_sites(F, f) if f.dominates(r.bb, b)] + [s for s in ss if f.dominates(r.bb, s) and s != r.bb]
            if not ds:
                problems.append(("no-dir-sync-after-rename", "the rename is never followed by a sync of the parent directory: under a crash that loses un-synced renames the old file (or none) reappears while dependent steps survive", r.where()))
            # no write after the rename
            for (_k, w, _a, _c) in wo:
                if f.dominates(r.bb, w.bb) and w.bb != r.bb:
                    problems.append(("write-after-rename", "a durable file is written after the atomic rename", w.where()))
    ok = not problems
    ctx.site("atomic replace in %s" % name, where, ok=ok, write_opens=len(wo), renames=len(ren), syncs=len(ss))
    for (k, what, wh) in problems:
        ctx.violation("%s:R-DUR-2:%s" % (name, k), "%s: %s" % (name.split("::")[-1], what), wh)
    return ok


def first_named(f, locals_):
    """the user-variable name among a set of locals (smallest local index that has a debug name)"""
    names = sorted((l, f.name_of(l)) for l in locals_ if f.name_of(l))
    return names[0][1] if names else None


def check_unlink_sync(F, ctx, name, exempt_reason=None):
    """every remove_file on a success path is followed (reachably) by a directory sync"""
    f = F.fn(name)
    eo = error_only_blocks(f)
    ds = set(dir_sync_sites(F, f)) | set(sync_sites(F, f))
    n = 0
    for c in f.normal_calls():
        if not m(c, P_REMOVE):
            continue
        if c.bb in eo:
            continue
        n += 1
        reach = f.reachable_from([c.bb])
        ok = any(b in reach and b != c.bb for b in ds)
        if exempt_reason and not ok:
            ctx.site("unlink in %s (exempt)" % name, c.where(), ok=True)
            ctx.exempt("unlink without directory sync in %s" % name, exempt_reason)
            continue
        ctx.site("unlink in %s" % name, c.where(), ok=ok)
        if not ok:
            ctx.violation("%s:R-DUR-3:unlink-not-synced" % name, "%s removes a durable file but no directory sync can follow: a crash can resurrect the deleted file" % name.split("::")[-1], c.where())
    return n


def ordered_dom(f, a_calls, b_calls):
    """every b is dominated by some a (a != b)"""
    return bool(a_calls) and bool(b_calls) and all(any(f.dominates(a.bb, b.bb) and a.bb != b.bb for a in a_calls) for b in b_calls)


def never_after(f, a_calls, b_calls):
    """no a can execute after a b: no path from any b to any a; and some b is reachable from some a or a is absent on that path"""
    if not a_calls or not b_calls:
        return False
    for b in b_calls:
        r = f.reachable_from([b.bb])
        for a in a_calls:
            if a.bb in r and a.bb != b.bb:
                return False
    return True


def loop_blocks(f):
    """blocks that lie on a cycle of the normal-edge CFG (Tarjan SCC)"""
    index = {}
    low = {}
    on = set()
    st = []
    out = set()
    counter = [0]
    import sys
    sys.setrecursionlimit(max(10000, f.n * 4))

    def sc(v):
        index[v] = low[v] = counter[0]
        counter[0] += 1
        st.append(v)
        on.add(v)
        for w in f.succ(v):
            if w not in index:
                sc(w)
                low[v] = min(low[v], low[w])
            elif w in on:
                low[v] = min(low[v], index[w])
        if low[v] == index[v]:
            comp = []
            while True:
                w = st.pop()
                on.discard(w)
                comp.append(w)
                if w == v:
                    break
            if len(comp) > 1 or v in f.succ(v):
                out.update(comp)

    for v in sorted(f.live_blocks()):
        if v not in index:
            sc(v)
    return out


def must_pass(f, through_bbs, extra_stop=(), start=0):
    """True iff every success path start->return passes one of `through_bbs`; returns (ok, witness)"""
    rets, eb = f.success_returns()
    stop = set(eb) | set(through_bbs) | set(extra_stop)
    for r in rets:
        p = f.path(start, [r], stop=stop)
        if p is not None:
            return False, p
    return True, None


_G2_CALL = re.compile(r"::(is_empty|is_some|is_none|is_ok|is_err)$")


def angelic_skip_targets(F, f, goal_bbs, ctx=None, label=""):
    """g2 'changed-count' guards: a switch on a bool computed from is_empty/is_some/len-compare where exactly one
    side can reach a goal block; the other side is the 'nothing changed' branch and may skip the goal.
    Returns the set of skip-side target blocks (each use is recorded as an angelic guard)."""
    out = set()
    goal_bbs = set(goal_bbs)
    for c in f.normal_calls():
        if not _G2_CALL.search(c.static or ""):
            continue
        br = common.branch_on_result(f, c)
        if br is None:
            continue
        (sw, false_t, true_t) = br
        rf = f.reachable_from([false_t])
        rt = f.reachable_from([true_t])
        gf = bool(goal_bbs & rf)
        gt = bool(goal_bbs & rt)
        if gf != gt:
            skip = true_t if gf else false_t
            # a `nothing changed` side changes nothing: what only that side executes (its exclusive region) must not
            # write a field of self / take a mutable borrow of one (e.g. remove the last entry and return early)
            excl = (rt - rf) if skip == true_t else (rf - rt)
            writes = [b for (b, kind, a_, fd, line, pl) in f.field_accesses() if b in excl and kind in ("w", "wb", "wp") and pl.get("l") == 1]
            if writes:
                continue
            out.add(skip)
            if ctx is not None:
                ctx.angelic_guard("%s: `%s` guard (changed-count idiom); the side without the required call is taken to mean 'nothing changed'" % (label, (c.static or "").split("::")[-1]), f.where(sw))
    # boolean flag locals (`let mut found = false; ... found = true;`): every assignment is a constant
    flag_locals = {}
    for i in range(f.n):
        for st in f.stmts(i):
            if proj(st["d"]):
                continue
            l = st["d"]["l"]
            rv = st["r"]
            is_const_bool = rv.get("k") == "use" and op_const(rv["o"]) is not None and op_const(rv["o"])[0] == "bool"
            flag_locals[l] = flag_locals.get(l, True) and is_const_bool
        t = f.term(i)
        if t["k"] == "call" and not proj(t["dst"]):
            flag_locals[t["dst"]["l"]] = False
    for i in sorted(f.live_blocks()):
        t = f.term(i)
        if t["k"] != "switch":
            continue
        l = op_local(t["on"])
        src = None
        for st in f.stmts(i):
            if st["d"]["l"] == l and st["r"].get("k") == "use" and op_local(st["r"]["o"]) is not None:
                src = op_local(st["r"]["o"])
        cand = src if src is not None else l
        if flag_locals.get(cand) and f.name_of(cand):
            targets = [tg for _v, tg in t["tg"]] + [t["else"]]
            reach = [bool(goal_bbs & f.reachable_from([tg])) for tg in targets]
            if len(set(targets)) == 2 and reach.count(True) == 1:
                out.add(targets[reach.index(False)])
                if ctx is not None:
                    ctx.angelic_guard("%s: boolean flag `%s` (set only to constants) guards the required call" % (label, f.name_of(cand)), f.where(i))
    # comparisons against constants: `count > 0`
    for i in sorted(f.live_blocks()):
        for st in f.stmts(i):
            rv = st["r"]
            if rv.get("k") == "bin" and rv["op"] in ("Gt", "Ne", "Lt", "Eq", "Ge", "Le") and (op_const(rv["a"]) or op_const(rv["b"])) and not proj(st["d"]):
                t = f.term(i)
                if t["k"] == "switch" and op_local(t["on"]) == st["d"]["l"]:
                    targets = [tg for _v, tg in t["tg"]] + [t["else"]]
                    reach = [bool(goal_bbs & f.reachable_from([tg])) for tg in targets]
                    if len(set(targets)) == 2 and reach.count(True) == 1:
                        out.add(targets[reach.index(False)])
                        if ctx is not None:
                            ctx.angelic_guard("%s: count comparison guard (changed-count idiom)" % label, f.where(i))
    return out
