"""C21 - proof trees are valid derivations (negation-leaf clause: the prover sees derived facts when it checks a negated atom)."""
from . import provrules


def run(F, ctx):
    ctx.explanation = (
        "Decides one clause of proof validity, by sibling agreement inside the prover: a negation leaf must name a pattern with no matching fact, and the facts of a relation "
        "defined by rules live in the derived data, not in the base data. Rule: in prove_body, the arm that handles a negated atom reads every fact source of the proof "
        "context (base data, derived data) that the arm for a positive atom reads. Otherwise `q(X) <- e(X,Y), !d(Y)` with d derived is 'proved' through a Y for which d(Y) "
        "holds. Not decided: that bindings satisfy the clause, that children are exactly the body atoms, that leaves are stored facts (values of unification at run time)."
    )
    ctx.rule("R-C21-a", "prove_body: a negated atom is checked against the same fact sources as a positive atom", floor=1)
    provrules.check(F, ctx, "provenance::prove_body::prove_body", "C21", "a proof tree contains a negation leaf for a fact that holds (an invalid derivation)")
    ctx.end_rule()
