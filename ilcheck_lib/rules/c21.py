"""C21 - proof trees are valid derivations (negation-leaf clause: the prover sees derived facts when it checks a negated atom)."""
from . import provrules


def run(F, ctx):
    ctx.explanation = (
        "Decides one clause of proof validity, by sibling agreement inside the prover: a negation leaf must name a pattern with no matching fact, and the facts of a relation "
        "defined by rules live in the derived data, not in the base data. Rule: in prove_body, the arm that handles a negated atom reads every fact source of the proof "
        "context (base data, derived data) that the arm for a positive atom reads. Otherwise `q(X) <- e(X,Y), !d(Y)` with d derived is 'proved' through a Y for which d(Y) "
        "holds. (b) When the prover matches an atom against stored tuples, a variable that already received a value from an earlier position of the same atom is looked up and "
        "compared (a miss binds it, a hit that differs rejects the tuple) - never rebound or skipped. Not decided: that bindings satisfy the clause, that children are exactly the body atoms, that leaves are stored facts (values of unification at run time)."
    )
    ctx.rule("R-C21-a", "prove_body: a negated atom is checked against the same fact sources as a positive atom", floor=1)
    provrules.check(F, ctx, "provenance::prove_body::prove_body", "C21", "a proof tree contains a negation leaf for a fact that holds (an invalid derivation)")
    ctx.end_rule()

    # ---- b: a variable that occurs twice in one atom is bound once and compared afterwards
    import re
    from ..core import CheckError, op_local
    from . import common
    ctx.rule("R-C21-b", "unification of an atom with a stored tuple: a variable already bound by an earlier position is compared, not rebound or skipped", floor=1)
    f = F.fn("provenance::unification::find_matching_tuples")
    done = False
    for (bb, adt, pl, mm, other) in f.enum_switches("provenance::unification::BoundTerm"):
        if "Unbound" not in mm:
            continue
        done = True
        targets = list(mm.values()) + ([other] if other is not None else [])
        region = f.arm_region(targets, mm["Unbound"], stop={bb})
        gets = [c for c in f.normal_calls() if c.bb in region and re.search(r"HashMap::<std::string::String, value::Value>::get(::<.*>)?$", c.static_args or "")]
        ins = [c for c in f.normal_calls() if c.bb in region and re.search(r"HashMap::<std::string::String, value::Value>::(insert|entry)$", c.static_args or "")]
        gd = set()
        for g_ in gets:
            gd |= f.derive({g_.dst["l"]}, through_calls=False)
        eqs = [c for c in f.normal_calls() if c.bb in region and ((c.resolved or "").endswith("values_equal") or re.search(r"<value::Value as std::cmp::PartialEq>::(eq|ne)$", c.static_args or "")) and any(op_local(a) in gd for a in c.args)]
        # the comparison's `differs` side must be able to reject the tuple (it is branched on)
        branched = [c for c in eqs if common.branch_on_result(f, c)]
        # inserts only where the lookup missed
        ok_ins = True
        for g_ in gets:
            for (b2, a2, p2, m2, o2) in f.enum_switches("std::option::Option"):
                if p2.get("l") in f.derive({g_.dst["l"]}, through_calls=False) | {g_.dst["l"]} and "Some" in m2:
                    none_t = m2.get("None", o2)
                    for c in ins:
                        if not f.dominates(none_t, c.bb):
                            ok_ins = False
        ok = bool(gets) and bool(branched) and bool(ins) and ok_ins and not any(re.search(r"::entry$", c.static_args or "") for c in ins)
        ctx.site("find_matching_tuples: repeated variable compared with its first binding", f.where(mm["Unbound"]), ok=ok, lookups=len(gets), comparisons=len(branched), inserts=len(ins))
        if not ok:
            ctx.violation("provenance::unification::find_matching_tuples:R-C21-b:repeated-variable-not-compared", "when an atom repeats a still-unbound variable (`link(G, N, N)`), the second position is not compared with the value bound by the first: a stored tuple that violates the equality (link(1,2,3)) matches, and the proof step's instantiated body atom is not its child's conclusion", f.where(mm["Unbound"]))
    if not done:
        raise CheckError("find_matching_tuples: no dispatch over BoundTerm with an Unbound arm")
    ctx.end_rule()
