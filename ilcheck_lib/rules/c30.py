"""C30 - a program with a syntax error has no effect; statements take effect in program order."""
import re
from ..core import CheckError, op_local
from . import common, dur, c28, authrules

QJ = "protocol::handler::QueryJob::execute"
PARSE = "statement::parse_statement"
JOIN = "protocol::handler::join_continuation_lines"
STRIP = "protocol::handler::strip_comments"
_LINES = re.compile(r"^core::str::<impl str>::lines$")
PRE_PHASE_OK = {
    "storage_engine::StorageEngine::ensure_knowledge_graph": "request-level effect (auto-creation of the *target graph* when the server is configured for it), not the effect of any statement of the program; it happens before the text is looked at",
}


def reaches_sink(F, name, memo):
    if name in memo:
        return memo[name]
    memo[name] = False
    for tgt in F.reach([name]):
        tf = F.fn(tgt)
        for cc in tf.calls():
            for nm in (cc.resolved, cc.static):
                if nm and any(p.match(nm) for p in c28.SINKS):
                    memo[name] = True
                    return True
    return False


def run(F, ctx):
    ctx.explanation = (
        "Decides: (a) in the executor the parse-all-first phase - a loop that parses every segment and records each failure, followed by a return of the error when any "
        "failure was recorded - dominates every call that can reach a durable-state sink (call-graph reachability; the one pre-phase effect, auto-creation of the target "
        "graph, is listed); (b) both phases iterate the same segmented text with the same trim / skip-empty treatment, so phase 1 validates exactly what phase 2 runs; "
        "(d) phase 2 walks str::lines() directly (no reordering adaptor), one statement per iteration. Not decided: all-or-nothing of each single statement's own effect."
    )
    f = F.fn(QJ)
    loops = dur.loop_blocks(f)
    ps = sorted([c for c in f.normal_calls() if c.resolved == PARSE and c.bb in loops], key=lambda c: c.bb)
    lines = [c for c in f.normal_calls() if _LINES.match(c.static or "")]
    if len(ps) < 2 or len(lines) < 2:
        raise CheckError("QueryJob::execute: expected two line loops with parse_statement, found %d parses / %d lines()" % (len(ps), len(lines)))

    # ---- a
    ctx.rule("R-C30-a", "parse-all-first validation dominates every effectful call", floor=10)
    pushes = [c for c in f.normal_calls() if re.search(r"Vec::<.*ValidationError>::push$", c.static_args or "")]
    emp = [c for c in f.normal_calls() if re.search(r"Vec::<.*ValidationError>::is_empty$", c.static_args or "")]
    shrink = [c for c in f.normal_calls() if re.search(r"Vec::<.*ValidationError>::(clear|pop|truncate|remove|drain|retain)", c.static_args or "")]
    gate = None
    for c in emp:
        br = common.branch_on_result(f, c)
        if br:
            (sw, false_t, true_t) = br
            rets, eb = f.success_returns()
            # the non-empty side can only leave through an error return
            if not any(r in f.reachable_from([false_t], stop=eb) for r in rets):
                gate = (c, true_t, false_t)
    # phase-1 parse: the first parse in a loop whose Err arm reaches a push
    p1 = None
    for p in ps:
        res = f.derive({p.dst["l"]}, through_calls=False)
        for (bb, adt, pl, mm, other) in f.enum_switches("std::result::Result"):
            if pl["l"] in res and any(x.bb in f.reachable_from([mm.get("Err", other)], stop={mm.get("Ok", other)}) for x in pushes):
                p1 = p
                break
        if p1:
            break
    ok = gate is not None and p1 is not None and bool(pushes) and not shrink and gate[0].bb in f.reachable_from([p1.bb]) and p1.bb not in f.reachable_from([gate[1]])
    ctx.site("phase 1: every segment parsed, failures recorded, non-empty => Err", f.where(), ok=ok)
    if not ok:
        ctx.violation(QJ + ":R-C30-a:no-parse-all-first", "QueryJob::execute has no parse-all-first phase whose recorded failures force an error return before execution", f.where())
        ctx.end_rule()
        return
    memo = {}
    n_eff = 0
    all_calls = list(f.normal_calls())
    for c in all_calls:
        r = c.resolved
        eff = False
        if r in F.bodies:
            eff = reaches_sink(F, r, memo)
        for nm in (c.resolved, c.static):
            if nm and any(p.match(nm) for p in c28.SINKS):
                eff = True
        if not eff:
            continue
        n_eff += 1
        dom = f.dominates(gate[1], c.bb)
        if not dom and r in PRE_PHASE_OK:
            ctx.site("pre-phase call %s (exempt)" % r.split("::")[-1], c.where(), ok=True)
            ctx.exempt(r, PRE_PHASE_OK[r])
            continue
        ctx.site("effectful call %s after phase 1" % (r or c.static).split("::")[-1], c.where(), ok=dom)
        if not dom:
            ctx.violation("%s:R-C30-a:effect-before-validation:%s" % (QJ, (r or c.static).split("::")[-1]), "%s (which can reach durable state) is callable before the whole program has been validated: a later syntax error no longer means `no statement applied`" % (r or c.static).split("::")[-1], c.where())
    if n_eff < 10:
        raise CheckError("only %d effectful calls found in QueryJob::execute (sink analysis blind?)" % n_eff)
    ctx.end_rule()

    # ---- b
    ctx.rule("R-C30-b", "phase 1 and phase 2 iterate the same segmented text with the same trim / skip-empty treatment", floor=1)
    jc = [c for c in f.normal_calls() if c.resolved == JOIN]
    sc = [c for c in f.normal_calls() if c.resolved == STRIP]
    ok = len(jc) == 1 and len(sc) >= 1
    if ok:
        dj = f.derive({jc[0].dst["l"]}, through_calls=False)
        # lines() receivers: &*program_text via Deref call
        dj2 = f.derive({jc[0].dst["l"]}, through_calls=True, stop_calls=[PARSE, _LINES])
        ok = all(op_local(l.args[0]) in dj2 for l in lines)
    per_loop = []
    for l in lines:
        dl = f.derive({l.dst["l"]}, through_calls=True, stop_calls=[PARSE])
        trims = [c for c in f.normal_calls() if (c.static or "") == "core::str::<impl str>::trim" and c.bb in loops and op_local(c.args[0]) in dl]
        empt = [c for c in f.normal_calls() if (c.static or "") == "core::str::<impl str>::is_empty" and c.bb in loops and op_local(c.args[0]) in dl]
        per_loop.append((len(trims) > 0, len(empt) > 0))
    ok = ok and len(set(per_loop)) == 1 and per_loop[0] == (True, True)
    ctx.site("both phases: lines() of the one join_continuation_lines(strip_comments(program)) result; trim + skip empty", f.where(), ok=ok, per_loop=per_loop)
    if not ok:
        ctx.violation(QJ + ":R-C30-b:phases-differ", "validation and execution no longer iterate the same segmented text in the same way (%s): a statement can execute that phase 1 never parsed" % per_loop, f.where())
    ctx.end_rule()

    # ---- d
    ctx.rule("R-C30-d", "execution walks str::lines() directly, in program order", floor=1)
    nexts = [c for c in f.normal_calls() if (c.static or "") == "std::iter::Iterator::next" and c.bb in loops and re.search(r"std::str::Lines<'_> as std::iter::Iterator>::next$|Enumerate<std::str::Lines", c.static_args or "")]
    reorder = [c for c in f.normal_calls() if re.search(r"std::str::Lines<'_> as std::iter::(DoubleEndedIterator|Iterator)>::(rev|rev::|collect|sorted)", c.static_args or "")]
    ok = len(nexts) >= 2 and not reorder
    ctx.site("line loops iterate Lines (or Enumerate<Lines>) directly", f.where(), ok=ok, loops=len(nexts))
    if not ok:
        ctx.violation(QJ + ":R-C30-d:reordered", "statements are no longer taken from str::lines() in program order", f.where())
    ctx.end_rule()


    # ---- e: the pre-executor paths of execute_program
    authrules.rule_must_pass(F, ctx, "C30")
    authrules.rule_no_bypass(F, ctx)
    ctx.rule("R-C30-e", "statement-intercepting paths of execute_program act on one segment of the program, like the executor", floor=3)
    e = F.fn(authrules.EP)
    prog = e.need_local("program")
    whole = e.derive({prog}, through_calls=True, stop_calls=[_LINES, JOIN]) if prog is not None else set()
    seg = set()
    for c in e.normal_calls():
        if _LINES.match(c.static or ""):
            seg |= e.derive({c.dst["l"]}, through_calls=True)
    sinks = {c.bb for c in authrules.sinks_in(F, e) if not re.search(r"query_program", c.resolved or "")}
    bad = []
    n = 0
    for p in [c for c in e.normal_calls() if c.resolved == PARSE]:
        res = e.derive({p.dst["l"]}, through_calls=False)
        guards = False
        for (bb, adt, pl, mm, other) in e.enum_switches("std::result::Result"):
            if pl["l"] in res and "Ok" in mm:
                region = e.reachable_from([mm["Ok"]], stop={mm.get("Err", other)})
                if sinks & region and any(e.dominates(mm["Ok"], s_) for s_ in sinks):
                    guards = True
        if not guards:
            continue
        n += 1
        a0 = op_local(p.args[0])
        is_whole = a0 in whole and a0 not in seg
        ctx.site("intercept parse at line %s takes %s" % (p.line, "the whole program text" if is_whole else "one segment"), p.where(), ok=not is_whole)
        if is_whole:
            bad.append(p)
    if n < 2:
        raise CheckError("execute_program: only %d statement-intercepting parses found" % n)
    if bad:
        ctx.violation(authrules.EP + ":R-C30-e:intercept-parses-whole-program", "execute_program's intercept paths parse the whole program text as one statement (%d sites) and return after serving it: the meta-command parser ignores surplus text, so for `.user drop bob\\n+edge[(1, 2)]` the first statement is applied and the following lines are silently dropped" % len(bad), bad[0].where())
    ctx.end_rule()
