"""C19 - incremental arrangements mirror the base relations (mirror pairing clauses)."""
import re
from ..core import CheckError, op_local, op_const, proj
from . import common, dur, c32

KG = "storage_engine::KnowledgeGraph"
IE = "incremental::IncrementalEngine"
_PUSH_T = re.compile(r"Vec::<value::Tuple>::push$")


def option_none_targets(f, field):
    """None-side targets of `if let Some(x) = &self.<field>` (angelic g1: the incremental engine is absent)"""
    out = []
    from ..core import place_fields
    for (bb, adt, pl, mm, other) in f.enum_switches("std::option::Option"):
        hit = any(fd == field for (_a, fd) in place_fields(pl))
        if not hit:
            for o in common.origins(f, pl["l"]):
                r = common.ref_field_of(f, o)
                if r and r[1] == field:
                    hit = True
        if "Some" in mm and hit:
            out.append((bb, mm.get("None", other)))
    return out


def run(F, ctx):
    ctx.explanation = (
        "Decides: (a) wherever a base-fact mutation changes the live relation map, the *effective* delta (the tuples actually added / actually removed, collected in the "
        "branch decided by the membership test) is what is handed to the incremental engine's insert/delete, on every success path on which the engine exists and the "
        "delta is non-empty, and with the time of the write; enabling incremental maintenance replays every stored relation; (b) a consistent read loads the maximal write "
        "time, advances to it, waits until caught up, then reads - in this order - and every mirrored write raises the maximal write time before it is sent; (c) insert sends "
        "diff +1 and delete diff -1. Not decided: the dataflow worker's own bookkeeping."
    )
    # ---- a
    ctx.rule("R-C19-a", "the effective delta of each base-fact mutation is mirrored into the incremental engine", floor=3)
    # insert
    f = F.fn(KG + "::insert_in_memory")
    lv = c32.live_vectors(f)
    tests = c32.membership_tests(f, lv)
    conts = [t[0] for t in tests]
    pushes = [c for c in f.normal_calls() if _PUSH_T.search(c.static_args or "")]
    live_push = [c for c in pushes if op_local(c.args[0]) in lv]
    eff_push = [c for c in pushes if op_local(c.args[0]) not in lv]
    dd = [c for c in f.normal_calls() if c.resolved == IE + "::insert"]
    ok = bool(conts) and bool(live_push) and bool(eff_push) and bool(dd)
    if ok:
        (_c0, false_t, true_t, _t0) = tests[0]   # false_t: the `new tuple` side
        ok = all(f.dominates(false_t, p.bb) for p in eff_push)
        eff = set()
        for p in eff_push:
            eff |= common.origins(f, op_local(p.args[0]))
        eff_d = f.derive(eff, through_calls=False)
        ok = ok and all(op_local(c.args[2]) in eff_d for c in dd)
        tl = f.need_local("time")
        ok = ok and all(op_local(c.args[3]) in f.derive({tl}, through_calls=False) for c in dd)
        none_t = option_none_targets(f, "incremental")
        for (bb, t) in none_t:
            ctx.angelic_guard("insert_in_memory: `if let Some(dd) = &self.incremental` (no incremental engine to mirror into)", f.where(bb))
        skip = dur.angelic_skip_targets(F, f, [c.bb for c in dd], ctx, "insert_in_memory")
        for p in live_push:
            okp, wit = dur.must_pass(f, [c.bb for c in dd], extra_stop=[t for (_b, t) in none_t] + list(skip), start=p.bb)
            ok = ok and okp
        ok = ok and all(common.err_propagated(f, c)[0] for c in dd)
    ctx.site("insert_in_memory mirrors the actually-new tuples", f.where(), ok=ok)
    if not ok:
        ctx.violation(KG + "::insert_in_memory:R-C19-a:mirror", "insert_in_memory does not hand exactly the actually-new tuples (with the write's time, error propagated) to the incremental engine on every path that changed the relation: the arrangement diverges from the base relation", f.where())
    # delete
    g = F.fn(KG + "::delete_in_memory")
    lvg = c32.live_vectors(g)
    contsg = [c for c in g.normal_calls() if c32._CONTAINS.search(c.static_args or "") and op_local(c.args[0]) in lvg]
    pushg = [c for c in g.normal_calls() if _PUSH_T.search(c.static_args or "") and op_local(c.args[0]) not in lvg]
    retain = [c for c in g.normal_calls() if re.search(r"Vec::<value::Tuple>::retain", c.static_args or "")]
    ddg = [c for c in g.normal_calls() if c.resolved == IE + "::delete"]
    ok = bool(contsg) and bool(pushg) and bool(retain) and bool(ddg)
    if ok:
        br = common.branch_on_result(g, contsg[0])
        (sw, false_t, true_t) = br
        ok = all(g.dominates(true_t, p.bb) and not g.dominates(false_t, p.bb) for p in pushg)
        eff = set()
        for p in pushg:
            eff |= common.origins(g, op_local(p.args[0]))
        ok = ok and all(op_local(c.args[2]) in g.derive(eff, through_calls=False) for c in ddg)
        tl = g.need_local("time")
        ok = ok and all(op_local(c.args[3]) in g.derive({tl}, through_calls=False) for c in ddg)
        none_t = option_none_targets(g, "incremental")
        for (bb, t) in none_t:
            ctx.angelic_guard("delete_in_memory: `if let Some(dd) = &self.incremental`", g.where(bb))
        skip = dur.angelic_skip_targets(F, g, [c.bb for c in ddg], ctx, "delete_in_memory")
        okp, wit = dur.must_pass(g, [c.bb for c in ddg], extra_stop=[t for (_b, t) in none_t] + list(skip), start=retain[0].bb)
        ok = ok and okp and all(common.err_propagated(g, c)[0] for c in ddg)
    # the delta is collected before the retain(): a tuple named k times in the request must enter it once, so the
    # collecting loop has to walk a duplicate-free view of the request (a set, or a vector after dedup())
    if ok:
        eff_all = set()
        for p in pushg:
            eff_all |= common.origins(g, op_local(p.args[1])) if len(p.args) > 1 else set()
        nexts = [c for c in g.normal_calls() if re.search(r"as std::iter::Iterator>::next$", c.static_args or "")]
        feeding = []
        for nx in nexts:
            nd = g.derive({nx.dst["l"]}, through_calls=True)
            if any(op_local(p.args[1]) in nd for p in pushg if len(p.args) > 1):
                feeding.append(nx)
        dedup_vecs = set()
        for c in g.normal_calls():
            if re.search(r"Vec::<.*>::dedup(_by|_by_key)?$", c.static_args or ""):
                dedup_vecs |= g.derive(common.origins(g, op_local(c.args[0])), through_calls=True)
        dup_free = bool(feeding) and all(re.search(r"(hash_set|btree_set|btree::set|hash::set)::(Iter|IntoIter)", nx.static_args or "") or op_local(nx.args[0]) in dedup_vecs for nx in feeding)
        ctx.site("delete_in_memory: the delta-collecting loop walks a duplicate-free view of the request", feeding[0].where() if feeding else g.where(), ok=dup_free, iterators=[(nx.static_args or "")[:80] for nx in feeding])
        if not dup_free:
            ctx.violation(KG + "::delete_in_memory:R-C19-a:delta-collected-from-raw-request", "delete_in_memory collects the tuples to retract from the incremental engine by walking the request as given (membership is tested before the retain()): a tuple named twice in one delete batch is retracted twice, its multiplicity in the arrangement becomes -1 and a later re-insert leaves it at 0 - the arrangement misses a stored tuple", feeding[0].where() if feeding else g.where())
    ctx.site("delete_in_memory mirrors the actually-removed tuples", g.where(), ok=ok)
    if not ok:
        ctx.violation(KG + "::delete_in_memory:R-C19-a:mirror", "delete_in_memory does not hand exactly the actually-removed tuples (with the write's time, error propagated) to the incremental engine on every path that changed the relation", g.where())
    # clear
    h = F.fn(KG + "::clear_relations_by_prefix")
    lvh = c32.live_vectors(h)
    clr = [c for c in h.normal_calls() if re.search(r"Vec::<value::Tuple>::clear$", c.static_args or "") and op_local(c.args[0]) in lvh]
    ddh = [c for c in h.normal_calls() if c.resolved == IE + "::delete"]
    ok = bool(clr) and bool(ddh)
    if ok:
        # the mirrored delete takes a clone of the vector that is then cleared, before it is cleared
        ok = all(op_local(c.args[2]) in h.derive(lvh, through_calls=True) for c in ddh)
        none_t = option_none_targets(h, "incremental")
        for c in clr:
            reach_back = any(h.dominates(d.bb, c.bb) or c.bb in h.reachable_from([d.bb]) for d in ddh)
            ok = ok and reach_back
            # every path from the emptiness guard to the clear passes the mirror delete unless the engine is absent
            okp = h.path(0, [c.bb], stop={d.bb for d in ddh} | {t for (_b, t) in none_t}) is None
            ok = ok and okp
    ctx.site("clear_relations_by_prefix mirrors the cleared tuples before clearing", h.where(), ok=ok)
    if not ok:
        ctx.violation(KG + "::clear_relations_by_prefix:R-C19-a:mirror", "clear_relations_by_prefix can clear a relation without first mirroring its tuples as deletes into the incremental engine", h.where())
    # enable_incremental replays everything
    e = F.fn(KG + "::enable_incremental")
    loops = dur.loop_blocks(e)
    ins = [c for c in e.normal_calls() if c.resolved == IE + "::insert"]
    lve = c32.live_vectors(e)
    ok = bool(ins) and all(c.bb in loops for c in ins) and all(op_local(c.args[2]) in e.derive(lve, through_calls=True) for c in ins)
    ctx.site("enable_incremental replays every stored relation", e.where(), ok=ok)
    if not ok:
        ctx.violation(KG + "::enable_incremental:R-C19-a:replay", "enable_incremental does not replay every stored relation into the new incremental engine", e.where())
    ctx.end_rule()

    # ---- b
    ctx.rule("R-C19-b", "consistent read: load max write time ≺ advance ≺ wait ≺ read; writes raise the max write time before sending", floor=3)
    r = F.fn(IE + "::read_relation_consistent")
    mw = set()
    for c in common.calls_on_field(r, "max_write_time"):
        mw |= r.derive({c.dst["l"]}, through_calls=False)
    ld = [c for c in r.normal_calls() if re.search(r"atomic::Atomic.*::load$", c.static_args or c.static or "") and (op_local(c.args[0]) in mw or common.calls_on_field(r, "max_write_time") and c in common.calls_on_field(r, "max_write_time"))]
    adv = [c for c in r.normal_calls() if c.resolved == IE + "::advance_time"]
    wt = [c for c in r.normal_calls() if c.resolved == IE + "::wait_until_caught_up"]
    rd = [c for c in r.normal_calls() if c.resolved == IE + "::read_relation"]
    ok = dur.ordered_dom(r, ld, adv) and dur.ordered_dom(r, adv, wt) and dur.ordered_dom(r, wt, rd)
    if ok:
        d = set()
        for c in ld:
            d |= r.derive({c.dst["l"]}, through_calls=False)
        ok = all(op_local(c.args[1]) in d for c in adv) and all(op_local(c.args[1]) in d for c in wt)
        # the loaded field is max_write_time
        ok = ok and all(common.err_propagated(r, c)[0] for c in adv + wt)
    ctx.site("read_relation_consistent order", r.where(), ok=ok)
    if not ok:
        ctx.violation(IE + "::read_relation_consistent:R-C19-b:order", "a consistent read no longer loads the maximal write time, advances to it, waits until caught up and only then reads", r.where())
    for nm in ("insert", "delete"):
        w = F.fn(IE + "::" + nm)
        mwl = set()
        for c in common.calls_on_field(w, "max_write_time"):
            mwl |= w.derive({c.dst["l"]}, through_calls=False) | {c.dst["l"]}
        fm = [c for c in w.normal_calls() if re.search(r"::fetch_max$", c.static_args or c.static or "") and (op_local(c.args[0]) in mwl or c in common.calls_on_field(w, "max_write_time"))]
        sd = [c for c in w.normal_calls() if re.search(r"Sender::<.*>::send$", c.static_args or "")]
        tl = w.need_local("time")
        ok = dur.ordered_dom(w, fm, sd) and all(op_local(c.args[1]) in w.derive({tl}, through_calls=False) for c in fm)
        ctx.site("IncrementalEngine::%s raises max_write_time before sending" % nm, w.where(), ok=ok)
        if not ok:
            ctx.violation("%s::%s:R-C19-b:max-write-time" % (IE, nm), "IncrementalEngine::%s does not raise max_write_time (to the write's time) before sending the delta: a consistent read can miss the write" % nm, w.where())
    ctx.end_rule()

    # ---- c
    ctx.rule("R-C19-c", "insert sends diff +1, delete sends diff -1", floor=2)
    for nm, want in (("insert", "1_isize"), ("delete", "-1_isize")):
        vals = set()
        for n in F.with_closures(IE + "::" + nm):
            w = F.fn(n)
            for i in range(w.n):
                for st in w.stmts(i):
                    rv = st["r"]
                    if rv.get("k") == "agg" and rv.get("ak") == "tuple" and len(rv["ops"]) == 3:
                        cst = op_const(rv["ops"][2])
                        if cst and cst[0] == "isize":
                            vals.add(rv["ops"][2].get("t"))
        ok = vals == {want}
        ctx.site("IncrementalEngine::%s diff constant" % nm, F.fn(IE + "::" + nm).where(), ok=ok, found=sorted(vals))
        if not ok:
            ctx.violation("%s::%s:R-C19-c:diff-sign" % (IE, nm), "IncrementalEngine::%s sends updates with diff %s (expected %s)" % (nm, sorted(vals), want), F.fn(IE + "::" + nm).where())
    ctx.end_rule()
