"""C01 - query answers equal the stratified least model (fixpoint-coverage clause: mutually recursive heads are iterated)."""
import re
from ..core import CheckError, op_local, proj
from . import common, dur

ENG = "IQLEngine"
CG = "code_generator::CodeGenerator"
_EXEC = re.compile(r"^code_generator::CodeGenerator::execute(_recursive|_with_config|_parallel)?$")
_STORE = re.compile(r"HashMap::<std::string::String, std::vec::Vec<value::Tuple>>::insert$")
_GET = re.compile(r"HashMap::<std::string::String, std::vec::Vec<value::Tuple>>::get(::<.*>)?$")


def chain_loops(F):
    """functions of the engine that execute one code generator per rule head in a loop and feed each result to later heads"""
    out = []
    for name in sorted(F.bodies):
        if not name.startswith(ENG + "::") or "{closure" in name:
            continue
        if "CodeGenerator::new" not in F.raw_line(name):
            continue
        f = F.fn(name)
        loops = dur.loop_blocks(f)
        stores = [c for c in f.normal_calls() if c.bb in loops and _STORE.search(c.static_args or "")]
        if not stores:
            continue
        stored = set()
        for y in stores:
            stored |= {l for l in common.origins(f, op_local(y.args[0])) if "HashMap" in f.ty(l)}
        sd = f.derive(stored, through_calls=True) if stored else set()
        loads = [y for y in f.normal_calls() if y.bb in loops and re.search(r"load_inputs_into_codegen|CodeGenerator::add_input|CodeGenerator::set_shared_input", y.resolved or "") and any(op_local(a) in sd for a in y.args[1:])]
        news = [c for c in f.normal_calls() if c.bb in loops and (c.resolved or "") == CG + "::new"]
        if loads and news:
            out.append((f, loops, stores, stored, news))
    return out


def run(F, ctx):
    ctx.explanation = (
        "Decides the fixpoint-coverage clause: a rule head that depends on another head which depends back on it (mutual recursion) is not covered by the per-head "
        "Differential Dataflow fixpoint, which iterates one relation; one pass over the heads in execution order sees such heads incomplete. Rule: every function of the "
        "engine on the query path that executes one code generator per head in a loop and feeds each head's result to later heads (the chained execution loop) must be "
        "able to re-run that pass - the creation of the iterator over the execution order lies inside an enclosing loop - and the exit of the enclosing loop depends both on "
        "a cyclicity test computed from the heads' dependency sets and on a change test that compares a head's new result with its previous one. "
        "Not decided: that each pass computes the right relation (values of the dataflow), termination speed, the least model of the non-recursive part."
    )
    ctx.rule("R-C01-a", "mutually recursive heads are iterated to a fixpoint by the chained execution loop", floor=1)
    chains = chain_loops(F)
    if not chains:
        raise CheckError("no chained per-head execution loop found in IQLEngine (anchor moved)")
    on_query_path = F.reach([ENG + "::execute_tuples", ENG + "::execute_tuples_with_derived", ENG + "::execute_tuples_profiled"])
    n_in = 0
    for (f, loops, stores, stored, news) in chains:
        if f.name not in on_query_path:
            ctx.site("%s: chained loop outside the query path" % f.name, f.where(), ok=True)
            ctx.exempt(f.name, "not reachable from IQLEngine::execute_tuples* (the query path of the storage engine and the server): a per-rule inspection API")
            continue
        if f.name == ENG + "::execute_shared_views":
            ctx.site("%s: chained loop over subplan-sharing views" % f.name, f.where(), ok=True)
            ctx.exempt(f.name, "its nodes are subplan-sharing views (common subexpressions over base relations), executed in Kahn order of an acyclic dependency relation; rule heads - the only thing that can be recursive - are not executed here")
            continue
        n_in += 1
        # (1) the pass can be repeated: the iterator over the execution order is created inside a loop
        iters = [c for c in f.normal_calls() if re.search(r"IntoIterator>::into_iter$", c.static_args or "") and "usize" in (c.static_args or "")]
        inner = []
        for c in iters:
            nd = f.derive({c.dst["l"]}, through_calls=True)
            # the iterator that drives the code-generator loop: its `next` result indexes the heads
            if any(x.bb in loops and re.search(r"Iterator>::next$", x.static_args or "") and op_local(x.args[0]) in nd for x in f.normal_calls()):
                if any(f.dominates(c.bb, n.bb) for n in news):
                    inner.append(c)
        if not inner:
            raise CheckError("%s: iterator over the execution order not found" % f.name)
        repeatable = all(c.bb in loops for c in inner)
        # (2) exit of the enclosing loop depends on a change test and on a cyclicity test
        dep_fns = {n for n in F.bodies if n.startswith(ENG + "::") and (ENG + "::collect_scan_relations") in F.reach([n]) and F.fn(n).ty(0) == "bool"}
        cyc_calls = [c for c in f.normal_calls() if c.resolved in dep_fns]
        cyc_d = set()
        for c in cyc_calls:
            cyc_d |= f.derive({c.dst["l"]}, through_calls=False)
        gets = [c for c in f.normal_calls() if c.bb in loops and _GET.search(c.static_args or "") and (common.origins(f, op_local(c.args[0])) & stored)]
        chg_d = set()
        for c in gets:
            chg_d |= f.derive({c.dst["l"]}, through_calls=True)
        exit_on_change = exit_on_cycle = False
        if repeatable:
            outer_entry = min(c.bb for c in inner)
            for i in sorted(loops):
                t = f.term(i)
                if t.get("k") != "switch":
                    continue
                succ = f.succ(i)
                leaves = [s_ for s_ in succ if outer_entry not in f.reachable_from([s_])]
                stays = [s_ for s_ in succ if outer_entry in f.reachable_from([s_])]
                if leaves and stays:
                    dl = op_local(t.get("on"))
                    srcs = common.origins(f, dl) | {dl} if dl is not None else set()
                    if srcs & chg_d:
                        exit_on_change = True
                    if srcs & cyc_d:
                        exit_on_cycle = True
                    # control dependence: the exit flag is assigned under a branch on the tested value
                    # (`again = mutual && changed;  while again { .. }`)
                    assign_bbs = [j for j in sorted(loops) for st in f.stmts(j) if st["d"]["l"] in srcs and not proj(st["d"])]
                    for j in sorted(loops):
                        tj = f.term(j)
                        if tj.get("k") != "switch":
                            continue
                        dj = op_local(tj.get("on"))
                        sj = (common.origins(f, dj) | {dj}) if dj is not None else set()
                        if not (sj & (chg_d | cyc_d)):
                            continue
                        sc = f.succ(j)
                        for b_ in assign_bbs:
                            dom = [x for x in sc if f.dominates(x, b_)]
                            if dom and len(dom) < len(set(sc)):
                                if sj & chg_d:
                                    exit_on_change = True
                                if sj & cyc_d:
                                    exit_on_cycle = True
        ok = repeatable and exit_on_change and exit_on_cycle
        ctx.site("%s: the pass over the heads is repeated until nothing changes when heads are mutually recursive" % f.name, f.where(inner[0].bb), ok=ok,
                 repeatable=repeatable, exit_depends_on_change_test=exit_on_change, exit_depends_on_cyclicity_test=exit_on_cycle, cyclicity_fns=sorted(dep_fns)[:3])
        if not ok:
            why = "executes the heads once, in execution order" if not repeatable else ("repeats the pass, but its exit does not depend on %s" % ("a change test" if not exit_on_change else "the dependency-cycle test"))
            ctx.violation("%s:R-C01-a:mutual-recursion-single-pass" % f.name, "%s %s: heads that depend on each other are evaluated against incomplete relations - `even(X) <- zero(X)  even(Y) <- odd(X), succ(X,Y)  odd(Y) <- even(X), succ(X,Y)` returns even = {0}" % (f.name, why), f.where(inner[0].bb))
    if n_in < 1:
        raise CheckError("no chained execution loop on the query path")
    ctx.end_rule()
