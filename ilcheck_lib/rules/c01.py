"""C01 - query answers equal the stratified least model (fixpoint-coverage clause: mutually recursive heads are iterated)."""
import re
from ..core import CheckError, op_local, proj
from . import common, dur

ENG = "IQLEngine"
CG = "code_generator::CodeGenerator"
_EXEC = re.compile(r"^code_generator::CodeGenerator::execute(_recursive|_with_config|_parallel)?$")
_STORE = re.compile(r"HashMap::<std::string::String, std::vec::Vec<value::Tuple>>::insert$")
_GET = re.compile(r"HashMap::<std::string::String, std::vec::Vec<value::Tuple>>::get(::<.*>)?$")


def chain_loops(F):
    """functions of the engine that execute one code generator per rule head in a loop and feed each result to later heads"""
    out = []
    for name in sorted(F.bodies):
        if not name.startswith(ENG + "::") or "{closure" in name:
            continue
        if "CodeGenerator::new" not in F.raw_line(name):
            continue
        f = F.fn(name)
        loops = dur.loop_blocks(f)
        stores = [c for c in f.normal_calls() if c.bb in loops and _STORE.search(c.static_args or "")]
        if not stores:
            continue
        stored = set()
        for y in stores:
            stored |= {l for l in common.origins(f, op_local(y.args[0])) if "HashMap" in f.ty(l)}
        sd = f.derive(stored, through_calls=True) if stored else set()
        loads = [y for y in f.normal_calls() if y.bb in loops and re.search(r"load_inputs_into_codegen|CodeGenerator::add_input|CodeGenerator::set_shared_input", y.resolved or "") and any(op_local(a) in sd for a in y.args[1:])]
        news = [c for c in f.normal_calls() if c.bb in loops and (c.resolved or "") == CG + "::new"]
        if loads and news:
            out.append((f, loops, stores, stored, news))
    return out


def run(F, ctx):
    ctx.explanation = (
        "Decides the fixpoint-coverage clause: a rule head that depends on another head which depends back on it (mutual recursion) is not covered by the per-head "
        "Differential Dataflow fixpoint, which iterates one relation; one pass over the heads in execution order sees such heads incomplete. Rule: every function of the "
        "engine on the query path that executes one code generator per head in a loop and feeds each head's result to later heads (the chained execution loop) must be "
        "able to re-run that pass - the creation of the iterator over the execution order lies inside an enclosing loop - and the exit of the enclosing loop depends both on "
        "a cyclicity test computed from the heads' dependency sets and on a change test that compares a head's new result with its previous one; and the repetition is "
        "per group of mutually dependent heads, the groups being produced by the dependency analysis and walked dependencies-first by an enclosing iteration. "
        "(b) Columns are joined by name: the names the IR builder generates for atom arguments that are not variables (wildcards, constants, literals, expressions) must be unique per atom, "
        "i.e. include the atom's index - otherwise two wildcards of one relation become a join key. "
        "Not decided: that each pass computes the right relation (values of the dataflow), termination speed, the least model of the non-recursive part."
    )
    ctx.rule("R-C01-a", "mutually recursive heads are iterated to a fixpoint by the chained execution loop", floor=1)
    chains = chain_loops(F)
    if not chains:
        raise CheckError("no chained per-head execution loop found in IQLEngine (anchor moved)")
    on_query_path = F.reach([ENG + "::execute_tuples", ENG + "::execute_tuples_with_derived", ENG + "::execute_tuples_profiled"])
    n_in = 0
    for (f, loops, stores, stored, news) in chains:
        if f.name not in on_query_path:
            ctx.site("%s: chained loop outside the query path" % f.name, f.where(), ok=True)
            ctx.exempt(f.name, "not reachable from IQLEngine::execute_tuples* (the query path of the storage engine and the server): a per-rule inspection API")
            continue
        if f.name == ENG + "::execute_shared_views":
            ctx.site("%s: chained loop over subplan-sharing views" % f.name, f.where(), ok=True)
            ctx.exempt(f.name, "its nodes are subplan-sharing views (common subexpressions over base relations), executed in Kahn order of an acyclic dependency relation; rule heads - the only thing that can be recursive - are not executed here")
            continue
        n_in += 1
        # (1) the pass can be repeated: the iterator over the execution order is created inside a loop
        iters = [c for c in f.normal_calls() if re.search(r"IntoIterator>::into_iter$", c.static_args or "") and "usize" in (c.static_args or "")]
        inner = []
        for c in iters:
            nd = f.derive({c.dst["l"]}, through_calls=True)
            # the iterator that drives the code-generator loop: its `next` result indexes the heads
            if any(x.bb in loops and re.search(r"Iterator>::next$", x.static_args or "") and op_local(x.args[0]) in nd for x in f.normal_calls()):
                if any(f.dominates(c.bb, n.bb) for n in news):
                    inner.append(c)
        if not inner:
            raise CheckError("%s: iterator over the execution order not found" % f.name)
        # the innermost driving iterator (over one group / over the order) must be created inside a loop: its pass can be re-run
        inner_in = [c for c in inner if c.bb in loops]
        repeatable = bool(inner_in)
        # headers of enclosing iterations that merely move on to the next group are not part of the repeat loop
        outer_next = set()
        for c in inner:
            if c not in inner_in:
                nd = f.derive({c.dst["l"]}, through_calls=True)
                for x in f.normal_calls():
                    if re.search(r"Iterator>::next$", x.static_args or "") and op_local(x.args[0]) in nd and x.bb in loops:
                        # only the `next` of this (outer) iterator, not of the inner one
                        if not any(op_local(x.args[0]) in f.derive({ci.dst["l"]}, through_calls=True) for ci in inner_in):
                            outer_next.add(x.bb)
        # (2) exit of the enclosing loop depends on a change test and on a cyclicity test
        # cyclicity: a value computed by a dependency analysis of the heads (a bool `has a cycle`, or the grouping of the
        # heads into mutually dependent sets, whose size is tested)
        dep_fns = {n for n in F.bodies if n.startswith(ENG + "::") and n != f.name and "{closure" not in n and (ENG + "::collect_scan_relations") in F.reach([n]) and (CG + "::new") not in F.reach([n])}
        cyc_calls = [c for c in f.normal_calls() if c.resolved in dep_fns]
        cyc_d = set()
        for c in cyc_calls:
            cyc_d |= f.derive({c.dst["l"]}, through_calls=True, stop_calls=[re.compile(r"CodeGenerator::"), re.compile(r"load_inputs_into_codegen")])
        gets = [c for c in f.normal_calls() if c.bb in loops and _GET.search(c.static_args or "") and (common.origins(f, op_local(c.args[0])) & stored)]
        chg_d = set()
        for c in gets:
            chg_d |= f.derive({c.dst["l"]}, through_calls=True)
        exit_on_change = exit_on_cycle = False
        if repeatable:
            outer_entry = min(c.bb for c in inner_in)
            for i in sorted(loops):
                t = f.term(i)
                if t.get("k") != "switch":
                    continue
                succ = f.succ(i)
                leaves = [s_ for s_ in succ if s_ in outer_next or outer_entry not in f.reachable_from([s_], stop=outer_next)]
                stays = [s_ for s_ in succ if s_ not in outer_next and outer_entry in f.reachable_from([s_], stop=outer_next)]
                if leaves and stays:
                    dl = op_local(t.get("on"))
                    srcs = common.origins(f, dl) | {dl} if dl is not None else set()
                    if srcs & chg_d:
                        exit_on_change = True
                    if srcs & cyc_d:
                        exit_on_cycle = True
                    # control dependence: the exit flag is assigned under a branch on the tested value
                    # (`again = mutual && changed;  while again { .. }`)
                    assign_bbs = [j for j in sorted(loops) for st in f.stmts(j) if st["d"]["l"] in srcs and not proj(st["d"])]
                    for j in sorted(loops):
                        tj = f.term(j)
                        if tj.get("k") != "switch":
                            continue
                        dj = op_local(tj.get("on"))
                        sj = (common.origins(f, dj) | {dj}) if dj is not None else set()
                        if not (sj & (chg_d | cyc_d)):
                            continue
                        sc = f.succ(j)
                        for b_ in assign_bbs:
                            dom = [x for x in sc if f.dominates(x, b_)]
                            if dom and len(dom) < len(set(sc)):
                                if sj & chg_d:
                                    exit_on_change = True
                                if sj & cyc_d:
                                    exit_on_cycle = True
        # (3) group-wise: the repeated pass runs over one group of mutually dependent heads at a time, the groups coming from the
        # dependency analysis and being walked by an enclosing iteration (dependencies first). A single global repetition of the
        # whole order is not enough: a higher group that is itself cyclic keeps rows it derived while a lower group was incomplete.
        group_wise = False
        grouping_calls = [c for c in cyc_calls if re.search(r"Vec<std::vec::Vec<usize>>|Vec<std::collections::\w+<usize>>", f.ty(c.dst["l"]))]
        direct = set()
        for c in grouping_calls:
            direct |= f.derive({c.dst["l"]}, through_calls=False)
        for c in inner:
            if c in inner_in:
                continue
            src = op_local(c.args[0])
            # the groups walked by the enclosing iteration are the grouping the dependency analysis returned (not a
            # collection assembled here from a flat order)
            if src is not None and src in direct:
                group_wise = True
        # the cyclicity test: a bool returned by a dependency analysis, or `size of the group >= 2`
        size_test_ok = False
        bool_calls = [c for c in cyc_calls if f.ty(c.dst["l"]) == "bool"]
        if bool_calls:
            size_test_ok = True
        lens = [c for c in f.normal_calls() if re.search(r"::len$", c.static_args or "") and op_local(c.args[0]) in cyc_d]
        len_d = set()
        for c in lens:
            len_d |= f.derive({c.dst["l"]}, through_calls=False)
        for i_ in range(f.n):
            for st in f.stmts(i_):
                rv = st["r"]
                if rv.get("k") == "bin" and rv["op"] in ("Gt", "Ge", "Lt", "Le", "Ne", "Eq"):
                    a_, b_ = op_local(rv["a"]), op_local(rv["b"])
                    if a_ in len_d and b_ is None and rv["b"].get("v") is not None:
                        k_ = int(rv["b"]["v"]); sz = lambda n_: {"Gt": n_ > k_, "Ge": n_ >= k_, "Lt": n_ < k_, "Le": n_ <= k_, "Ne": n_ != k_, "Eq": n_ == k_}[rv["op"]]
                    elif b_ in len_d and a_ is None and rv["a"].get("v") is not None:
                        k_ = int(rv["a"]["v"]); sz = lambda n_: {"Gt": k_ > n_, "Ge": k_ >= n_, "Lt": k_ < n_, "Le": k_ <= n_, "Ne": k_ != n_, "Eq": k_ == n_}[rv["op"]]
                    else:
                        continue
                    # true for every size >= 2 and false for 1 (or the exact negation, used as `single head`)
                    v = [sz(n_) for n_ in (1, 2, 3, 7)]
                    if v in ([False, True, True, True], [True, False, False, False]):
                        size_test_ok = True
        if not size_test_ok:
            exit_on_cycle = False
        ok = repeatable and exit_on_change and exit_on_cycle and group_wise
        ctx.site("%s: the pass over the heads is repeated until nothing changes when heads are mutually recursive" % f.name, f.where(inner[0].bb), ok=ok,
                 repeatable=repeatable, exit_depends_on_change_test=exit_on_change, exit_depends_on_cyclicity_test=exit_on_cycle, group_wise=group_wise, dependency_analyses=sorted(dep_fns)[:4])
        if not ok:
            why = "executes the heads once, in execution order" if not repeatable else (("repeats the pass, but its exit does not depend on %s" % ("a change test" if not exit_on_change else "the dependency-cycle test")) if not (exit_on_change and exit_on_cycle) else "repeats one global pass instead of iterating group by group, dependencies first (a cyclic group above a negation keeps rows derived from an incomplete lower group)")
            ctx.violation("%s:R-C01-a:mutual-recursion-single-pass" % f.name, "%s %s: heads that depend on each other are evaluated against incomplete relations - `even(X) <- zero(X)  even(Y) <- odd(X), succ(X,Y)  odd(Y) <- even(X), succ(X,Y)` returns even = {0}" % (f.name, why), f.where(inner[0].bb))
    if n_in < 1:
        raise CheckError("no chained execution loop on the query path")
    ctx.end_rule()

    # ---- b: wildcards and literals never become join keys
    from ..core import place_fields
    ctx.rule("R-C01-b", "column names generated for non-variable atom arguments (wildcards, constants, literals, expressions) are unique per atom", floor=6)
    bs = [n for n in F.bodies if n.endswith("IRBuilder::build_scan")]
    if len(bs) != 1:
        raise CheckError("IRBuilder::build_scan not found uniquely")
    clos = [n for n in F.with_closures(bs[0]) if n != bs[0] and F.fn(n).enum_switches("ast::Term")]
    if not clos:
        raise CheckError("build_scan: closure that names the columns (match over Term) not found")
    g = F.fn(clos[0])

    def reads_atom_index(fn):
        nm = fn.b["names"].get("atom_idx")
        if nm is None:
            return None
        for i in range(fn.n):
            for st in fn.stmts(i):
                rv = st["r"]
                pl = rv.get("p") if rv.get("k") in ("ref", "rawptr") else (((rv.get("o") or {}).get("c") or (rv.get("o") or {}).get("m")) if rv.get("k") == "use" else None)
                key = list(nm.get("p") or [])
                while key and key[-1] == "*":
                    key.pop()          # the capture is a reference: reading the reference is reading the index
                if pl and pl.get("l") == nm.get("l") and (pl.get("p") or [])[:len(key)] == key:
                    yield i

    if g.b["names"].get("atom_idx") is None:
        raise CheckError("build_scan: the naming closure does not capture an atom index at all")
    idx_blocks = set(reads_atom_index(g))
    n_arms = 0
    for (bb, adt, pl, mm, other) in g.enum_switches("ast::Term"):
        targets = list(mm.values()) + ([other] if other is not None else [])
        for v, tgt in sorted(mm.items()):
            region = g.arm_region(targets, tgt, stop={bb})
            fmts = [c for c in g.normal_calls() if c.bb in region and re.search(r"fmt::format$", c.static or "")]
            nested = []
            for i in region:
                for st in g.stmts(i):
                    rv = st["r"]
                    if rv.get("k") == "agg" and rv.get("ak") == "closure" and rv["def"] in F.bodies:
                        nested.append(rv["def"])
            ok = True
            generated = bool(fmts)
            if fmts and not (idx_blocks & region):
                ok = False
            for nd in nested:
                ng = F.fn(nd)
                if any(re.search(r"fmt::format$", c.static or "") for c in ng.normal_calls()):
                    generated = True
                    if not list(reads_atom_index(ng) or []):
                        ok = False
            if not generated:
                continue
            n_arms += 1
            ctx.site("Term::%s: generated column name includes the atom index" % v, g.where(tgt), ok=ok)
            if not ok:
                ctx.violation("%s:R-C01-b:%s-name-shared-between-atoms" % (bs[0], v), "build_scan names the column of a %s argument without the atom's index: two atoms of one relation get the same column name, and columns are joined by name - `q(X,Y) <- e(X,_), e(Y,_)` joins the two wildcards and returns 3 rows instead of 9" % v, g.where(tgt))
    if n_arms < 6:
        raise CheckError("build_scan: only %d generated-name arms found" % n_arms)
    ctx.end_rule()
