"""C15 - concurrent writes are serializable and durable (lock-region clauses)."""
import re
from collections import defaultdict
from ..core import CheckError, op_local
from . import common, dur

FP = "storage::persist::FilePersist"
PB = "<storage::persist::FilePersist as storage::persist::PersistBackend>::"
WAL = "storage::persist::wal::PersistWal"
SE = "storage_engine::StorageEngine"


def regions(f, field, mode=None):
    out = []
    for (c, fld, md) in common.lock_acquisitions(f, field):
        if mode is not None and md != mode:
            continue
        reg, drops = common.guard_region(f, c)
        out.append((c, reg, drops))
    return out


def covered(f, call, regs):
    return any(common.call_in_region(f, call, reg, drops) for (_c, reg, drops) in regs)


def run(F, ctx):
    ctx.explanation = (
        "Decides the atomicity windows that the code structure exposes: (LCK-1) FilePersist::append holds the shard-map write lock from before the WAL append "
        "until after the buffer insertion, and flush holds it from reading the buffer until the shard's WAL entries are removed; (LCK-2) the acquisition order over "
        "{shards, wal} across all FilePersist methods (including locks taken by callees) is acyclic, with replay_wal exempt only while it is called from the "
        "constructor alone; (LCK-3) compact holds the shard-map lock across read-batches -> write -> save metadata; (LCK-4) in both write entry points the logical "
        "time is drawn before the persist append, which precedes the in-memory apply. Not decided: serializability of effects in general."
    )
    ap, fl, co = F.fn(PB + "append"), F.fn(PB + "flush"), F.fn(PB + "compact")

    # ---- LCK-1
    ctx.rule("R-LCK-1", "WAL append + buffer insert (append) and buffer drain + WAL trim (flush) are each one critical section of the shard-map lock", floor=4)
    regs = regions(ap, "shards", "write")
    wal_calls = [c for c in ap.normal_calls() if (c.resolved or "") in (WAL + "::append_batch", WAL + "::append_batch_buffered", WAL + "::append", WAL + "::append_buffered")]
    buf_calls = [c for c in ap.normal_calls() if re.search(r"Vec::<.*Update>::(extend_from_slice|push|extend|append)$", c.static_args or "") or re.search(r"Vec<.*Update> as std::iter::Extend<.*>>::extend", c.static_args or "")]
    if not wal_calls or not buf_calls:
        raise CheckError("append: WAL append or buffer insertion call not found")
    one = False
    for (c, reg, drops) in regs:
        if all(common.call_in_region(ap, w, reg, drops) for w in wal_calls) and all(common.call_in_region(ap, b, reg, drops) for b in buf_calls):
            one = True
    for w in wal_calls:
        ctx.site("append: %s under shards.write()" % w.resolved.split("::")[-1], w.where(), ok=covered(ap, w, regs))
    for b in buf_calls:
        ctx.site("append: buffer insertion under shards.write()", b.where(), ok=covered(ap, b, regs))
    if not one:
        ctx.violation(PB + "append:R-LCK-1:wal-append-and-buffer-insert-not-one-critical-section",
                      "FilePersist::append does not hold the shard-map write lock across both the WAL append and the buffer insertion: a concurrent flush of the shard (which trims all of the shard's WAL entries under that lock) can run in between, after which the acknowledged update is in neither the WAL nor a batch", (wal_calls[0]).where())
    fregs = regions(fl, "shards", "write")
    wb = [c for c in fl.normal_calls() if (c.resolved or "").endswith("::write_batch")]
    sm = [c for c in fl.normal_calls() if (c.resolved or "").endswith("::save_shard_meta")]
    rs = [c for c in fl.normal_calls() if (c.resolved or "") == WAL + "::remove_shard_entries"]
    if not (wb and sm and rs):
        raise CheckError("flush: write_batch / save_shard_meta / remove_shard_entries not found")
    one = any(all(common.call_in_region(fl, x, reg, drops) for x in wb + sm + rs) for (_c, reg, drops) in fregs)
    ctx.site("flush: write_batch..remove_shard_entries under one shards.write()", fl.where(), ok=one)
    if not one:
        ctx.violation(PB + "flush:R-LCK-1:drain-and-trim-not-one-critical-section", "FilePersist::flush does not hold the shard-map write lock from draining the buffer until the shard's WAL entries are removed: an append landing in between is trimmed from the WAL without being in the batch", fl.where())
    ctx.end_rule()

    # ---- LCK-2 lock order
    ctx.rule("R-LCK-2", "lock acquisition order over FilePersist's locks is acyclic (callee acquisitions included)", floor=5)
    fp_fns = [n for n in F.bodies if (n.startswith(FP + "::") or n.startswith(PB)) and "{closure" not in n]
    # may-acquire summaries
    direct = {}
    for n in fp_fns:
        f = F.fn(n)
        direct[n] = {fld for (_c, fld, _m) in common.lock_acquisitions(f) if fld in ("shards", "wal")}
    def may_acquire(n, seen=None):
        seen = seen or set()
        if n in seen:
            return set()
        seen.add(n)
        s = set(direct.get(n, ()))
        for m_ in F.callgraph().get(n, ()):
            if m_ in direct:
                s |= may_acquire(m_, seen)
        return s
    edges = defaultdict(list)
    for n in fp_fns:
        f = F.fn(n)
        for (c, fld, md) in common.lock_acquisitions(f):
            if fld not in ("shards", "wal"):
                continue
            reg, drops = common.guard_region(f, c)
            for (c2, fld2, md2) in common.lock_acquisitions(f):
                if c2 is not c and fld2 in ("shards", "wal") and common.call_in_region(f, c2, reg, drops):
                    edges[(fld, fld2)].append((n, c2.where()))
            for x in f.normal_calls():
                r = x.resolved
                if r in direct and common.call_in_region(f, x, reg, drops):
                    for l2 in may_acquire(r):
                        edges[(fld, l2)].append((n, x.where()))
        ctx.site("lock regions of %s" % n.split("::")[-1], f.where(), ok=True)
    exempt_fn = FP + "::replay_wal"
    callers = F.callers(exempt_fn)
    exempt_ok = callers == [FP + "::new"]
    for (a, b), sites in sorted(edges.items()):
        if a == b:
            for (n, wh) in sites:
                ctx.violation("%s:R-LCK-2:reacquire:%s" % (n, a), "%s acquires `%s` while already holding it (self-deadlock with parking_lot locks)" % (n.split("::")[-1], a), wh)
            continue
        rev = edges.get((b, a), [])
        if rev and (a, b) < (b, a):
            fw = [s for s in sites if not (s[0] == exempt_fn and exempt_ok)]
            bw = [s for s in rev if not (s[0] == exempt_fn and exempt_ok)]
            if fw and bw:
                ctx.violation("%s:R-LCK-2:order-cycle:%s-%s" % (FP, a, b), "locks `%s` and `%s` are acquired in both orders (%s takes %s then %s; %s takes %s then %s): two threads can deadlock" % (a, b, fw[0][0].split("::")[-1], a, b, bw[0][0].split("::")[-1], b, a), bw[0][1])
            else:
                ctx.exempt("%s takes wal then shards" % exempt_fn, "only called from FilePersist::new, before the value is shared between threads (callers checked: %s)" % callers)
    ctx.site("replay_wal callers", F.fn(exempt_fn).where(), ok=exempt_ok, callers=callers)
    if not exempt_ok:
        ctx.violation(exempt_fn + ":R-LCK-2:exemption-broken", "replay_wal (which takes wal before shards) is now called from %s, not only from the constructor" % callers, F.fn(exempt_fn).where())
    ctx.extra["lock_order_edges"] = {"%s->%s" % k: len(v) for k, v in edges.items()}
    ctx.end_rule()

    # ---- LCK-3
    ctx.rule("R-LCK-3", "compact holds the shard-map lock across read batches -> write -> save metadata", floor=1)
    cregs = regions(co, "shards", "write")
    need = [c for c in co.normal_calls() if any((c.resolved or "").endswith(s) for s in ("::read_batch", "::write_batch", "::save_shard_meta"))]
    kinds = {(c.resolved or "").split("::")[-1] for c in need}
    if kinds != {"read_batch", "write_batch", "save_shard_meta"}:
        raise CheckError("compact: expected read_batch/write_batch/save_shard_meta, found %s" % kinds)
    one = any(all(common.call_in_region(co, x, reg, drops) for x in need) for (_c, reg, drops) in cregs)
    ctx.site("compact critical section", co.where(), ok=one)
    if not one:
        ctx.violation(PB + "compact:R-LCK-3:window", "compact releases the shard-map lock between reading the batches and saving the new metadata: a concurrent flush can add a batch that the compaction then drops", co.where())
    ctx.end_rule()

    # ---- LCK-4
    ctx.rule("R-LCK-4", "write entry points: logical time drawn before persist.append, which precedes the in-memory apply", floor=2)
    for nm, mem in ((SE + "::insert_tuples_into", "insert_in_memory"), (SE + "::delete_tuples_from", "delete_in_memory")):
        f = F.fn(nm)
        ts = [c for c in f.normal_calls() if re.search(r"atomic::Atomic.*::fetch_add$", c.static_args or c.static or "")]
        apd = [c for c in f.normal_calls() if (c.static or "").endswith("PersistBackend::append")]
        im = [c for c in f.normal_calls() if (c.resolved or "").endswith("::" + mem)]
        ok = bool(ts) and bool(apd) and bool(im) and dur.ordered_dom(f, ts, apd) and dur.ordered_dom(f, apd, im)
        # the time passed to the in-memory apply is the one drawn for the persisted updates
        if ok:
            d = set()
            for t in ts:
                d |= f.derive({t.dst["l"]}, through_calls=False)
            ok = all(any(op_local(a) in d for a in c.args) for c in im)
        ctx.site("%s: fetch_add ≺ persist.append ≺ %s (same time)" % (nm.split("::")[-1], mem), f.where(), ok=ok)
        if not ok:
            ctx.violation("%s:R-LCK-4:order" % nm, "%s no longer draws the logical time, appends to the persist layer and then applies in memory (with that same time) in this order" % nm.split("::")[-1], f.where())
    ctx.end_rule()
