use inputlayer::ir::{IRNode, Predicate};
use inputlayer::{CodeGenerator, Optimizer, Tuple, Value};
fn t(vals: &[i64]) -> Tuple { Tuple::new(vals.iter().map(|&v| Value::Int64(v)).collect()) }
fn names(v: &[&str]) -> Vec<String> { v.iter().map(|s| (*s).to_string()).collect() }
fn scan(rel: &str, schema: &[&str]) -> IRNode { IRNode::Scan { relation: rel.to_string(), schema: names(schema) } }
fn eval(ir: &IRNode) -> Vec<Tuple> {
    let mut cg = CodeGenerator::new();
    cg.add_input("r".to_string(), vec![t(&[1, 10]), t(&[2, 20])]);
    cg.add_input("s".to_string(), vec![t(&[10, 3]), t(&[20, 30])]);
    let mut out = cg.execute(ir).expect("plan must execute");
    out.sort(); out.dedup(); out
}
#[test]
fn right_only_filter_over_keyed_join() {
    let plan = IRNode::Filter {
        input: Box::new(IRNode::Join {
            left: Box::new(scan("r", &["x", "y"])),
            right: Box::new(scan("s", &["y", "z"])),
            left_keys: vec![1], right_keys: vec![0],
            output_schema: names(&["x", "y", "z"]),
        }),
        predicate: Predicate::ColumnGtConst(2, 5),
    };
    let before = eval(&plan);
    let opt = Optimizer::new().optimize(plan.clone());
    let after = eval(&opt);
    assert_eq!(before, after, "optimized: {opt:?}");
}
