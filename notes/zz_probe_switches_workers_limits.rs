use inputlayer::{IQLEngine, OptimizationConfig, Tuple, Value};
fn t(v: &[i64]) -> Tuple { Tuple::new(v.iter().map(|&x| Value::Int64(x)).collect()) }
fn cfg(bits: u32) -> OptimizationConfig {
    OptimizationConfig { enable_join_planning: bits & 1 != 0, enable_sip_rewriting: bits & 2 != 0, enable_subplan_sharing: bits & 4 != 0, enable_boolean_specialization: bits & 8 != 0, enable_magic_sets: bits & 16 != 0 }
}
fn run(bits: u32, workers: usize, limit: usize, src: &str) -> Result<Vec<Tuple>, String> {
    let mut e = IQLEngine::with_config(cfg(bits));
    e.add_tuples("e", vec![t(&[1,2]), t(&[2,3]), t(&[3,4]), t(&[4,2]), t(&[5,5])]);
    e.add_tuples("n", (1..7).map(|i| t(&[i])).collect());
    e.add_tuples("m", vec![t(&[2]), t(&[4]), t(&[6])]);
    e.add_tuples("w", vec![t(&[1,10]), t(&[2,20]), t(&[2,5]), t(&[3,7])]);
    e.set_num_workers(workers);
    e.set_max_result_rows(limit);
    let mut r = e.execute_tuples(src)?; r.sort(); r.dedup(); Ok(r)
}
#[test]
fn switches_workers_limits() {
    let progs = [
        "p(X) <- n(X), m(X)\np(X) <- e(X,X)\nq(X) <- p(X)\n",
        "tc(X,Y) <- e(X,Y)\ntc(X,Z) <- tc(X,Y), e(Y,Z)\nq(X,Y) <- tc(X,Y)\n",
        "even(X) <- m(X), n(X)\nodd(Y) <- even(X), e(X,Y)\neven(Y) <- odd(X), e(X,Y)\nq(X) <- even(X)\n",
        "d(Y) <- m(Y)\np(X) <- e(X,Y), n(X), !d(Y)\nq(X) <- p(X)\n",
        "s(X, sum<V>) <- w(X,V), n(X)\np(X,S) <- s(X,S), m(X)\nq(X,S) <- p(X,S)\n",
        "p(X,Z) <- e(X,Y), e(Y,Z), n(Z), X < Z\nq(X,Z) <- p(X,Z)\n",
        "c(count<X>) <- n(X), !m(X)\nq(C) <- c(C)\n",
        "tc(X,Y) <- e(X,Y)\ntc(X,Z) <- tc(X,Y), e(Y,Z)\nq(Y) <- tc(1,Y)\n",
    ];
    let mut bad = Vec::new();
    for (pi, p) in progs.iter().enumerate() {
        let base = run(0, 1, 0, p);
        println!("BASE {pi} {:?}", base.as_ref().map(|v| v.len()));
        for bits in 0..32u32 { for &w in &[1usize, 2, 4] {
            let got = run(bits, w, 0, p);
            if got != base { bad.push(format!("prog {pi} bits {bits:05b} workers {w}: {:?} vs {:?}", got.as_ref().map(|v| v.len()).map_err(|e| e.clone()), base.as_ref().map(|v| v.len()))); }
        } }
        if let Ok(full) = &base { for lim in [1usize, 2, 3, 5, full.len().max(1), full.len() + 1] { for bits in [0u32, 31] {
            match run(bits, 1, lim, p) {
                Ok(got) => { if got.len() != lim.min(full.len()) || !got.iter().all(|x| full.contains(x)) { bad.push(format!("prog {pi} limit {lim} bits {bits}: {} rows, subset={}", got.len(), got.iter().all(|x| full.contains(x)))); } }
                Err(e) => bad.push(format!("prog {pi} limit {lim}: Err {e}")),
            }
        } } }
    }
    for b in &bad { println!("DIFF {b}"); }
    assert!(bad.is_empty(), "{} differences", bad.len());
}
