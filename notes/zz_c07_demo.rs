//! Recursive min/max aggregate heads: answers are sets of head-arity tuples equal to the
//! least (greatest) path weights.
use inputlayer::{IQLEngine, Tuple, Value};
use std::collections::BTreeMap;
fn t(v: &[i64]) -> Tuple { Tuple::new(v.iter().map(|&x| Value::Int64(x)).collect()) }
fn shortest(edges: &[(i64, i64, i64)]) -> Vec<Tuple> {
    // Bellman-Ford style closure over paths of length >= 1
    let mut d: BTreeMap<(i64, i64), i64> = BTreeMap::new();
    for &(a, b, w) in edges { let e = d.entry((a, b)).or_insert(w); if w < *e { *e = w; } }
    loop {
        let mut changed = false;
        let snap: Vec<((i64, i64), i64)> = d.iter().map(|(k, v)| (*k, *v)).collect();
        for &((a, b), w1) in &snap {
            for &(c, e, w2) in edges {
                if b == c {
                    let nw = w1 + w2;
                    let cur = d.get(&(a, e)).copied();
                    if cur.map_or(true, |x| nw < x) { d.insert((a, e), nw); changed = true; }
                }
            }
        }
        if !changed { break; }
    }
    d.into_iter().map(|((a, b), w)| t(&[a, b, w])).collect()
}
fn run(edges: &[(i64, i64, i64)]) -> Vec<Tuple> {
    let mut e = IQLEngine::new();
    e.add_tuples("edge", edges.iter().map(|&(a, b, w)| t(&[a, b, w])).collect());
    let mut r = e
        .execute_tuples("sp(X,Y,min<D>) <- edge(X,Y,D)\nsp(X,Z,min<D>) <- sp(X,Y,D1), edge(Y,Z,D2), D = D1+D2\n")
        .expect("query");
    r.sort();
    r
}
#[test]
fn improvement_found_in_a_later_round() {
    let edges = [(1, 2, 1), (2, 3, 1), (1, 3, 5)];
    let got = run(&edges);
    assert!(got.iter().all(|x| x.arity() == 3), "head arity is 3: {got:?}");
    let mut dedup = got.clone(); dedup.dedup();
    assert_eq!(got, dedup, "answer is a set");
    assert_eq!(got, shortest(&edges));
}
#[test]
fn cyclic_graph_with_several_improvements() {
    let edges = [(1, 2, 4), (2, 1, 1), (2, 3, 9), (1, 3, 20), (3, 4, 1), (1, 4, 50), (4, 2, 1)];
    let got = run(&edges);
    assert!(got.iter().all(|x| x.arity() == 3), "head arity is 3: {got:?}");
    let mut dedup = got.clone(); dedup.dedup();
    assert_eq!(got, dedup, "answer is a set");
    assert_eq!(got, shortest(&edges));
}
