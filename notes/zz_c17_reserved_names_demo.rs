use inputlayer::{Config, StorageEngine, Tuple, Value};
use tempfile::TempDir;
fn t(v: &[i64]) -> Tuple { Tuple::new(v.iter().map(|&x| Value::Int64(x)).collect()) }
#[test]
fn dropping_a_graph_named_like_an_engine_directory_must_not_touch_other_graphs() {
    let temp = TempDir::new().unwrap();
    let mk = || { let mut c = Config::default(); c.storage.data_dir = temp.path().to_path_buf(); c };
    {
        let s = StorageEngine::new(mk()).unwrap();
        s.create_knowledge_graph("keep").unwrap();
        s.insert_tuples_into("keep", "r", vec![t(&[1]), t(&[2])]).unwrap();
        s.save_all().unwrap();
        // either the name is refused, or creating and dropping it leaves `keep` alone
        if s.create_knowledge_graph("persist").is_ok() { s.drop_knowledge_graph("persist").unwrap(); }
    }
    let s = StorageEngine::new(mk()).unwrap();
    let mut x = s.execute_query_tuples_on("keep", "q(X) <- r(X)").unwrap(); x.sort();
    assert_eq!(x, vec![t(&[1]), t(&[2])]);
}
#[test]
fn a_colon_in_a_graph_name_must_not_invent_another_graph() {
    let temp = TempDir::new().unwrap();
    let mk = || { let mut c = Config::default(); c.storage.data_dir = temp.path().to_path_buf(); c };
    {
        let s = StorageEngine::new(mk()).unwrap();
        if s.create_knowledge_graph("a:b").is_ok() { s.insert_tuples_into("a:b", "edge", vec![t(&[1, 2])]).unwrap(); s.save_all().unwrap(); }
    }
    let s = StorageEngine::new(mk()).unwrap();
    assert!(!s.list_knowledge_graphs().contains(&"a".to_string()), "graph `a` was never created: {:?}", s.list_knowledge_graphs());
}
