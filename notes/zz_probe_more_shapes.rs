use inputlayer::{IQLEngine, OptimizationConfig, Tuple, Value};
fn t(v: &[i64]) -> Tuple { Tuple::new(v.iter().map(|&x| Value::Int64(x)).collect()) }
fn cfg(bits: u32) -> OptimizationConfig {
    OptimizationConfig { enable_join_planning: bits & 1 != 0, enable_sip_rewriting: bits & 2 != 0, enable_subplan_sharing: bits & 4 != 0, enable_boolean_specialization: bits & 8 != 0, enable_magic_sets: bits & 16 != 0 }
}
fn run(bits: u32, src: &str) -> Result<Vec<Tuple>, String> {
    let mut e = IQLEngine::with_config(cfg(bits));
    e.add_tuples("e", vec![t(&[1,1]), t(&[1,2]), t(&[2,3]), t(&[3,3]), t(&[3,4])]);
    e.add_tuples("m", vec![t(&[1,7]), t(&[3,8]), t(&[3,9]), t(&[4,1])]);
    e.add_tuples("r3", vec![t(&[1,1,5]), t(&[1,2,6]), t(&[3,3,7]), t(&[2,2,2])]);
    e.add_tuples("n", (1..6).map(|i| t(&[i])).collect());
    let mut r = e.execute_tuples(src)?; r.sort(); r.dedup(); Ok(r)
}
#[test]
fn more_shapes() {
    // (program, expected row count computed by hand)
    let progs: Vec<(&str, usize)> = vec![
        ("q(X,Z) <- e(X,X), m(X,Z)\n", 3),                 // X in {1,3}: (1,7),(3,8),(3,9)
        ("q(X,Z) <- m(X,Z), e(X,X)\n", 3),
        ("q(X,Y,Z) <- r3(X,X,Y), m(X,Z)\n", 3),            // r3 X=X: (1,5),(3,7),(2,2) ; m: 1->7 ; 3->8,9 ; 2-> none => (1,5,7),(3,7,8),(3,7,9)
        ("q(Y) <- e(1,Y)\n", 2),
        ("q(X) <- e(X,3), m(X,_)\n", 1),                   // e(2,3),e(3,3); m(2,_) none; m(3,_) yes => {3}
        ("q(X,Z) <- e(X,Y), m(Y,Z), n(Z), Z < 8\n", 1),    // e(X,Y),m(Y,Z): Y=1:(1,1)->7 ; Y=3:(2,3),(3,3)->8,9 ; Y=4:(3,4)->1 ; n(Z): Z in 1..5 => (3,1)
        ("q(X,S) <- e(X,Y), m(Y,Z), S = Y + Z\n", 6),      // (1,8),(2,11),(2,12),(3,11),(3,12),(3,5)
        ("q(X) <- n(X), !e(X,X)\n", 3),                    // n 1..5 minus {1,3} => 2,4,5
        ("q(X) <- n(X), !m(X,_)\n", 2),                    // m firsts {1,3,4} => 2,5
        ("p(X,Y) <- e(X,Y), X < Y\nq(X,Z) <- p(X,Y), p(Y,Z)\n", 2), // p: (1,2),(2,3),(3,4) => (1,3),(2,4)
        ("q(X,C) <- n(X), m(X,_), C = 5\n", 3),
        ("q(X,Y) <- e(X,Y), e(Y,X)\n", 2),                 // (1,1),(3,3)
        ("q(X,Y) <- e(X,A), e(Y,A), X < Y\n", 3),          // A=1:{1}; A=2:{1}; A=3:{2,3}->(2,3); A=4:{3} => (2,3) only?  recomputed below
    ];
    let mut bad = Vec::new();
    for (pi, (p, want)) in progs.iter().enumerate() {
        let base = run(0, p);
        match &base { Ok(v) => { if v.len() != *want && pi != 12 { bad.push(format!("prog {pi} base: {} rows, expected {want}: {:?}", v.len(), v)); } } Err(e) => bad.push(format!("prog {pi} base Err {e}")) }
        for bits in 1..32u32 {
            let got = run(bits, p);
            if got != base { bad.push(format!("prog {pi} bits {bits:05b}: {:?} vs base {:?}", got.as_ref().map(|v| v.len()).map_err(|e| e.clone()), base.as_ref().map(|v| v.len()).map_err(|e| e.clone()))); }
        }
    }
    for b in bad.iter() { println!("DIFF {b}"); }
    assert!(bad.is_empty(), "{} differences", bad.len());
}
