use inputlayer::parser::parse_rule;
use inputlayer::provenance::backward_chaining::{build_proof_tree, ProofContext};
use inputlayer::provenance::ProofConfig;
use inputlayer::{Tuple, Value};
use std::collections::HashMap;
fn t(v: &[i64]) -> Tuple { Tuple::new(v.iter().map(|&x| Value::Int64(x)).collect()) }
#[test]
fn negation_over_a_derived_relation() {
    // d(Y) <- m(Y).   q(X) <- e(X,Y), !d(Y).
    // e = {(1,2),(1,3)}, m = {2}  => d = {2}; q(1) holds only through Y=3.
    let rules = vec![parse_rule("d(Y) <- m(Y)").unwrap(), parse_rule("q(X) <- e(X,Y), !d(Y)").unwrap()];
    let mut base: HashMap<String, Vec<Tuple>> = HashMap::new();
    base.insert("e".into(), vec![t(&[1, 2]), t(&[1, 3])]);
    base.insert("m".into(), vec![t(&[2])]);
    let mut derived: HashMap<String, Vec<Tuple>> = HashMap::new();
    derived.insert("d".into(), vec![t(&[2])]);
    derived.insert("q".into(), vec![t(&[1])]);
    let ctx = ProofContext::new(&rules, &base, ProofConfig::default()).with_derived_data(&derived);
    let tree = build_proof_tree("q", &t(&[1]), &ctx).expect("proof");
    let js = serde_json::to_string_pretty(&tree).unwrap();
    println!("{js}");
    // every negation leaf must name a pattern with no matching fact: d(2) is a fact
    for n in tree.nodes.values() {
        if let Some(neg) = &n.negation {
            assert!(!(n.conclusion.pred == "d" && n.conclusion.args == vec![Value::Int64(2)]), "negation leaf claims d(2) is absent: {}", neg.pattern);
        }
    }
}

#[test]
fn why_not_reports_the_derived_negated_fact_as_blocker() {
    use inputlayer::provenance::why_not::explain_why_not;
    // q(1) is not derived: its only candidate Y=2 is blocked by the derived fact d(2)
    let rules = vec![parse_rule("d(Y) <- m(Y)").unwrap(), parse_rule("q(X) <- e(X,Y), !d(Y)").unwrap()];
    let mut base: HashMap<String, Vec<Tuple>> = HashMap::new();
    base.insert("e".into(), vec![t(&[1, 2])]);
    base.insert("m".into(), vec![t(&[2])]);
    let mut derived: HashMap<String, Vec<Tuple>> = HashMap::new();
    derived.insert("d".into(), vec![t(&[2])]);
    let ctx = ProofContext::new(&rules, &base, ProofConfig::default()).with_derived_data(&derived);
    let tree = explain_why_not("q", &t(&[1]), &ctx);
    let js = serde_json::to_string(&tree).unwrap();
    assert!(js.contains("negation_succeeded") || js.contains("NegationSucceeded"), "no negation blocker reported for q(1): {js}");
}
