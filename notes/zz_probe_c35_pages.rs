use inputlayer::protocol::Handler;
use inputlayer::{Config, StorageEngine};
use tempfile::TempDir;
fn handler() -> (Handler, TempDir) {
    let temp = TempDir::new().unwrap();
    let mut config = Config::default();
    config.storage.data_dir = temp.path().to_path_buf();
    (Handler::new(StorageEngine::new(config).unwrap()), temp)
}
#[tokio::test]
async fn pages_are_slices_of_the_sorted_answer() {
    let (h, _t) = handler();
    for f in [
        "+r[(1, 5), (2, 3), (3, 9), (4, 3), (5, 7), (6, 1), (7, 9)]",
        "+s[(1, 2.5), (2, -0.0), (3, 0.0), (4, 1.0e300), (5, -3.25), (6, 2.5)]",
        "+t[(1, \"b\"), (2, \"a\"), (3, \"\"), (4, \"ab\"), (5, \"B\")]",
        "+u[(1, 5), (2, 2.5), (3, \"x\"), (4, 7), (5, \"a\"), (6, 0.5)]",
    ] { if let Err(e) = h.query_program(None, f.to_string()).await { println!("INSERT-ERR {f}: {e}"); } }
    let mut bad = Vec::new();
    for rel in ["r", "s", "t", "u"] {
        for dir in ["asc", "desc"] {
            let full = match h.query_program(None, format!("?{rel}(Id, V:{dir})")).await { Ok(r) => r, Err(e) => { bad.push(format!("{rel} {dir}: sort failed: {e}")); continue; } };
            let all: Vec<String> = full.rows.iter().map(|t| format!("{:?}", t)).collect();
            if full.total_count != all.len() { bad.push(format!("{rel} {dir}: total {} != {}", full.total_count, all.len())); }
            for (lim, off) in [(2usize, 0usize), (3, 1), (2, 4), (10, 0), (1, 6), (3, 5)] {
                let q = if off == 0 { format!("?{rel}(Id, V:{dir}), limit({lim})") } else { format!("?{rel}(Id, V:{dir}), limit({lim}, {off})") };
                match h.query_program(None, q.clone()).await {
                    Err(e) => bad.push(format!("{q}: {e}")),
                    Ok(p) => {
                        let page: Vec<String> = p.rows.iter().map(|t| format!("{:?}", t)).collect();
                        let want: Vec<String> = all.iter().skip(off).take(lim).cloned().collect();
                        // ties may come in any order: compare the sort keys only
                        let key = |s: &String| s.splitn(2, ',').nth(1).unwrap_or("").to_string();
                        if page.iter().map(key).collect::<Vec<_>>() != want.iter().map(key).collect::<Vec<_>>() { bad.push(format!("{q}: page {:?} want {:?}", page, want)); }
                        if p.total_count != all.len() { bad.push(format!("{q}: total {} != {}", p.total_count, all.len())); }
                    }
                }
            }
        }
    }
    for b in &bad { println!("BAD {}", &b[..b.len().min(400)]); }
    assert!(bad.is_empty());
}
