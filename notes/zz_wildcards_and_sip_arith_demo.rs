use inputlayer::{IQLEngine, OptimizationConfig, Tuple, Value};
fn t(v: &[i64]) -> Tuple { Tuple::new(v.iter().map(|&x| Value::Int64(x)).collect()) }
fn cfg(bits: u32) -> OptimizationConfig {
    OptimizationConfig { enable_join_planning: bits & 1 != 0, enable_sip_rewriting: bits & 2 != 0, enable_subplan_sharing: bits & 4 != 0, enable_boolean_specialization: bits & 8 != 0, enable_magic_sets: bits & 16 != 0 }
}
fn run(bits: u32, src: &str) -> Result<Vec<Tuple>, String> {
    let mut e = IQLEngine::with_config(cfg(bits));
    e.add_tuples("e", vec![t(&[1,2]), t(&[2,3]), t(&[3,4])]);
    e.add_tuples("m", vec![t(&[1,2]), t(&[2,3]), t(&[5,6])]);
    e.add_tuples("n", vec![t(&[2,3]), t(&[3,9]), t(&[6,1])]);
    let mut r = e.execute_tuples(src)?; r.sort(); r.dedup(); Ok(r)
}
#[test]
fn misc() {
    for (name, p) in [
        ("placeholders", "q(X,Y) <- e(X,_), e(Y,_)\n"),
        ("placeholders2", "p(X,Y) <- e(X,_), e(Y,_)\nq(X,Y) <- p(X,Y)\n"),
        ("sip_arith", "near(X,Z) <- m(X,Y), n(Y,Z), X + Z < 10\nq(X,Z) <- near(X,Z)\n"),
        ("repeated_var", "p(X) <- e(X,Y), e(Y,Y2), m(X,X2)\nq(X) <- p(X)\n"),
    ] {
        for bits in [0u32, 1, 2, 3, 31] {
            println!("R {name} bits {bits:05b}: {:?}", run(bits, p).map(|v| v.len()));
        }
    }
}
