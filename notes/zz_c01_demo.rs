//! Mutual recursion: the answer is the least model (per stratum).
use inputlayer::{IQLEngine, Tuple, Value};
fn t(v: &[i64]) -> Tuple { Tuple::new(v.iter().map(|&x| Value::Int64(x)).collect()) }
fn engine() -> IQLEngine {
    let mut e = IQLEngine::new();
    e.add_tuples("zero", vec![t(&[0])]);
    e.add_tuples("num", (0..7).map(|i| t(&[i])).collect());
    e.add_tuples("succ", (0..6).map(|i| t(&[i, i + 1])).collect());
    e.add_tuples("e", vec![t(&[1, 2]), t(&[2, 3]), t(&[3, 4]), t(&[4, 2])]);
    e
}
fn run(prog: &str) -> Vec<Tuple> { let mut r = engine().execute_tuples(prog).expect("query"); r.sort(); r.dedup(); r }
#[test]
fn even_odd() {
    let got = run("even(X) <- zero(X)\neven(Y) <- odd(X), succ(X,Y)\nodd(Y) <- even(X), succ(X,Y)\nq(X) <- even(X)\n");
    assert_eq!(got, vec![t(&[0]), t(&[2]), t(&[4]), t(&[6])]);
    let got = run("odd(Y) <- even(X), succ(X,Y)\neven(Y) <- odd(X), succ(X,Y)\neven(X) <- zero(X)\nq(X) <- odd(X)\n");
    assert_eq!(got, vec![t(&[1]), t(&[3]), t(&[5])]);
}
#[test]
fn closure_through_two_relations() {
    let got = run("a(X,Y) <- e(X,Y)\na(X,Z) <- b(X,Y), e(Y,Z)\nb(X,Y) <- a(X,Y)\nq(X,Y) <- a(X,Y)\n");
    // transitive closure of e = {1->2,3,4 ; 2->2,3,4 ; 3->2,3,4 ; 4->2,3,4}
    let mut want = Vec::new();
    for x in 1..=4 { for y in 2..=4 { want.push(t(&[x, y])); } }
    assert_eq!(got, want);
}
#[test]
fn negation_above_a_mutually_recursive_group() {
    // numbers that are not even, by negation over the settled group
    let got = run("even(X) <- zero(X)\neven(Y) <- odd(X), succ(X,Y)\nodd(Y) <- even(X), succ(X,Y)\nq(X) <- num(X), !even(X)\n");
    assert_eq!(got, vec![t(&[1]), t(&[3]), t(&[5])]);
}
#[test]
fn limit_applies_to_the_answer_only() {
    let mut e = engine();
    e.set_max_result_rows(2);
    let r = e.execute_tuples("even(X) <- zero(X)\neven(Y) <- odd(X), succ(X,Y)\nodd(Y) <- even(X), succ(X,Y)\nq(X) <- num(X), !even(X)\n").expect("query");
    assert_eq!(r.len(), 2);
    assert!(r.iter().all(|x| [t(&[1]), t(&[3]), t(&[5])].contains(x)), "{r:?}");
}

#[test]
fn negation_between_two_mutually_recursive_groups_written_top_down() {
    // the b group reads the a group through negation and is written above it
    let mut e = IQLEngine::new();
    e.add_tuples("n", (0..4).map(|i| t(&[i])).collect());
    e.add_tuples("start", vec![t(&[0])]);
    e.add_tuples("edge", vec![t(&[0, 1]), t(&[1, 2])]);
    let mut r = e.execute_tuples("b1(X) <- n(X), !a1(X)\nb1(X) <- b2(X)\nb2(X) <- b1(X)\na1(X) <- start(X)\na1(Y) <- a2(X), edge(X, Y)\na2(X) <- a1(X)\nout(X) <- b1(X)\n").expect("query");
    r.sort(); r.dedup();
    assert_eq!(r, vec![t(&[3])]);
}
#[test]
fn count_over_a_group_written_top_down() {
    let mut e = IQLEngine::new();
    e.add_tuples("start", vec![t(&[0])]);
    e.add_tuples("edge", vec![t(&[0, 1]), t(&[1, 2]), t(&[2, 3])]);
    let mut r = e.execute_tuples("out(C) <- cnt(C)\ncnt(count<X>) <- reach(X)\nreach(X) <- start(X)\nreach(Y) <- hop(X), edge(X,Y)\nhop(X) <- reach(X)\nq(C) <- out(C)\n").expect("query");
    r.sort(); r.dedup();
    assert_eq!(r, vec![t(&[4])]);
}
