use inputlayer::{Config, StorageEngine, Tuple, Value};
use tempfile::TempDir;
fn t(v: &[i64]) -> Tuple { Tuple::new(v.iter().map(|&x| Value::Int64(x)).collect()) }
#[test]
fn graphs_whose_names_differ_by_underscore_placement_stay_separate() {
    let temp = TempDir::new().unwrap();
    let mk = || { let mut c = Config::default(); c.storage.data_dir = temp.path().to_path_buf(); c };
    {
        let s = StorageEngine::new(mk()).unwrap();
        s.create_knowledge_graph("a_b").unwrap();
        s.create_knowledge_graph("a").unwrap();
        s.insert_tuples_into("a_b", "c", vec![t(&[1]), t(&[2])]).unwrap();
        s.insert_tuples_into("a", "b_c", vec![t(&[9])]).unwrap();
        s.save_all().unwrap();
    }
    let s = StorageEngine::new(mk()).unwrap();
    let mut x = s.execute_query_tuples_on("a_b", "q(X) <- c(X)").unwrap(); x.sort();
    let mut y = s.execute_query_tuples_on("a", "q(X) <- b_c(X)").unwrap(); y.sort();
    println!("a_b:c = {:?}\na:b_c = {:?}", x, y);
    assert_eq!(x, vec![t(&[1]), t(&[2])]);
    assert_eq!(y, vec![t(&[9])]);
}

#[test]
fn colliding_names_survive_more_writes_restarts_and_a_drop() {
    let temp = TempDir::new().unwrap();
    let mk = || { let mut c = Config::default(); c.storage.data_dir = temp.path().to_path_buf(); c };
    {
        let s = StorageEngine::new(mk()).unwrap();
        s.create_knowledge_graph("a_b").unwrap();
        s.create_knowledge_graph("a").unwrap();
        s.insert_tuples_into("a", "b_c", vec![t(&[9])]).unwrap();
        s.insert_tuples_into("a_b", "c", vec![t(&[1])]).unwrap();
        s.save_all().unwrap();
    }
    {
        let s = StorageEngine::new(mk()).unwrap();
        s.insert_tuples_into("a_b", "c", vec![t(&[2])]).unwrap();
        s.insert_tuples_into("a", "b_c", vec![t(&[8])]).unwrap();
        s.save_all().unwrap();
    }
    {
        let s = StorageEngine::new(mk()).unwrap();
        let mut x = s.execute_query_tuples_on("a_b", "q(X) <- c(X)").unwrap(); x.sort();
        let mut y = s.execute_query_tuples_on("a", "q(X) <- b_c(X)").unwrap(); y.sort();
        assert_eq!(x, vec![t(&[1]), t(&[2])]);
        assert_eq!(y, vec![t(&[8]), t(&[9])]);
        s.drop_knowledge_graph("a").unwrap();
    }
    let s = StorageEngine::new(mk()).unwrap();
    let mut x = s.execute_query_tuples_on("a_b", "q(X) <- c(X)").unwrap(); x.sort();
    assert_eq!(x, vec![t(&[1]), t(&[2])]);
    assert!(!s.list_knowledge_graphs().contains(&"a".to_string()));
}

#[test]
fn after_the_first_owner_is_dropped_the_other_keeps_one_metadata_file() {
    let temp = TempDir::new().unwrap();
    let mk = || { let mut c = Config::default(); c.storage.data_dir = temp.path().to_path_buf(); c };
    {
        let s = StorageEngine::new(mk()).unwrap();
        s.create_knowledge_graph("a").unwrap();
        s.create_knowledge_graph("a_b").unwrap();
        s.insert_tuples_into("a", "b_c", vec![t(&[9])]).unwrap();   // owns the plain name
        s.insert_tuples_into("a_b", "c", vec![t(&[1])]).unwrap();   // hashed name
        s.save_all().unwrap();
        s.drop_knowledge_graph("a").unwrap();
        s.insert_tuples_into("a_b", "c", vec![t(&[2])]).unwrap();
        s.save_all().unwrap();
    }
    {
        let s = StorageEngine::new(mk()).unwrap();
        s.insert_tuples_into("a_b", "c", vec![t(&[3])]).unwrap();
        s.save_all().unwrap();
    }
    let s = StorageEngine::new(mk()).unwrap();
    let mut x = s.execute_query_tuples_on("a_b", "q(X) <- c(X)").unwrap(); x.sort();
    assert_eq!(x, vec![t(&[1]), t(&[2]), t(&[3])]);
    let metas: Vec<_> = std::fs::read_dir(temp.path().join("persist/shards")).unwrap().filter_map(|e| e.ok()).map(|e| e.file_name().to_string_lossy().to_string()).filter(|n| n.starts_with("a_b_c")).collect();
    assert_eq!(metas.len(), 1, "{metas:?}");
}
