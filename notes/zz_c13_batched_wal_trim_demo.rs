//! Observation on the UNCHANGED code (not part of the seeded change):
//! in `DurabilityMode::Batched`, `PersistWal::remove_shard_entries` reads the WAL
//! file before the `BufWriter` holding not-yet-written entries is dropped, so a
//! flush of shard B discards the buffered WAL entries of shard A. A later
//! `sync()` cannot bring them back; a crash then loses A's acknowledged+synced
//! operation.

use inputlayer::config::DurabilityMode;
use inputlayer::storage::persist::batch::Update;
use inputlayer::storage::persist::{FilePersist, PersistBackend, PersistConfig};
use inputlayer::value::Tuple;
use tempfile::TempDir;

#[test]
fn batched_mode_flush_of_other_shard_keeps_wal_entries() {
    let temp = TempDir::new().unwrap();
    let cfg = || PersistConfig {
        path: temp.path().to_path_buf(),
        buffer_size: 1_000_000,
        durability_mode: DurabilityMode::Batched,
        max_wal_size_bytes: 0,
    };
    {
        let p = FilePersist::new(cfg()).unwrap();
        p.ensure_shard("db:a").unwrap();
        p.ensure_shard("db:b").unwrap();
        p.append("db:b", &[Update::insert(Tuple::from_pair(7, 7), 1)])
            .unwrap();
        p.append("db:a", &[Update::insert(Tuple::from_pair(1, 2), 2)])
            .unwrap();
        p.flush("db:b").unwrap();
        p.sync().unwrap();
        // crash: `p` is forgotten so not even BufWriter's drop runs
        std::mem::forget(p);
    }
    let p = FilePersist::new(cfg()).unwrap();
    let a = p.read("db:a", 0).unwrap();
    assert_eq!(a.len(), 1, "db:a's synced insert must survive the crash");
}
