//! Seeded-defect demonstration for C33 ("Declared schemas are enforced").
//!
//! A batch insert into a relation with a fixed-dimension vector column must be
//! rejected as a whole when ANY tuple carries a vector of another dimension,
//! also when an earlier tuple of the same batch is conforming.

use inputlayer::protocol::Handler;
use inputlayer::schema::{ColumnSchema, RelationSchema, SchemaType, ValidationEngine};
use inputlayer::value::{Tuple, Value};
use inputlayer::{Config, StorageEngine};
use tempfile::TempDir;

fn embed_schema() -> RelationSchema {
    RelationSchema::new("embed")
        .with_column(ColumnSchema::new("id", SchemaType::Int))
        .with_column(ColumnSchema::new("v", SchemaType::Vector { dim: Some(3) }))
}

fn good(id: i64) -> Tuple {
    Tuple::new(vec![Value::Int64(id), Value::vector(vec![1.0, 2.0, 3.0])])
}

fn bad(id: i64) -> Tuple {
    // Right kind of value (a vector), wrong dimension (2 instead of 3)
    Tuple::new(vec![Value::Int64(id), Value::vector(vec![1.0, 2.0])])
}

#[test]
fn validator_rejects_wrong_dimension_after_a_conforming_tuple() {
    let schema = embed_schema();
    let mut engine = ValidationEngine::new();

    // Sanity: alone, and first in a batch, the bad tuple is rejected.
    assert!(engine.validate_batch(&schema, &[bad(1)]).is_err());
    assert!(engine.validate_batch(&schema, &[bad(1), good(2)]).is_err());
    assert!(engine.validate_batch(&schema, &[good(1), good(2)]).is_ok());

    // The interesting order: a conforming tuple precedes the bad one.
    let res = engine.validate_batch(&schema, &[good(1), bad(2)]);
    assert!(
        res.is_err(),
        "batch with a 2-dim vector in a vector(3) column must be rejected"
    );
}

#[test]
fn storage_insert_rejects_mixed_dimension_batch_as_a_whole() {
    let temp = TempDir::new().unwrap();
    let mut config = Config::default();
    config.storage.data_dir = temp.path().to_path_buf();
    let storage = StorageEngine::new(config).unwrap();
    storage.create_knowledge_graph("c33").unwrap();
    storage.register_schema_in("c33", embed_schema()).unwrap();

    let res = storage.insert_tuples_into("c33", "embed", vec![good(1), good(2), bad(3)]);
    assert!(
        res.is_err(),
        "non-conforming batch was accepted by the storage engine: {res:?}"
    );
}

#[tokio::test]
async fn handler_insert_rejects_mixed_dimension_batch_as_a_whole() {
    let temp = TempDir::new().unwrap();
    let mut config = Config::default();
    config.storage.data_dir = temp.path().to_path_buf();
    let storage = StorageEngine::new(config).unwrap();
    let handler = Handler::new(storage);

    handler
        .query_program(None, "+embed(id: int, v: vector(3))".to_string())
        .await
        .unwrap();

    // Conforming tuple first, wrong-dimension tuple second.
    let _ = handler
        .query_program(
            None,
            "+embed[(1, [1.0, 2.0, 3.0]), (2, [1.0, 2.0])]".to_string(),
        )
        .await;

    let stored = handler
        .query_program(None, "?embed(Id, V)".to_string())
        .await
        .unwrap();
    assert_eq!(
        stored.rows.len(),
        0,
        "the whole batch must be rejected, but {} tuple(s) were stored",
        stored.rows.len()
    );
}
