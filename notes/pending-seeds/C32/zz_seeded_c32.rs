//! Seeded-defect demonstration for C32 (relations are sets, write reports are accurate).
//!
//! A bulk insert whose batch is large (>= 64 tuples) and contains the same tuple at two
//! NON-adjacent positions must store the tuple once, report it once as new and once as a
//! duplicate, and a later delete of that tuple must report exactly one removal.

use inputlayer::{Config, StorageEngine};
use std::collections::BTreeSet;
use tempfile::TempDir;

fn create_test_storage() -> (StorageEngine, TempDir) {
    let temp = TempDir::new().unwrap();
    let mut config = Config::default();
    config.storage.data_dir = temp.path().to_path_buf();
    config.storage.performance.num_threads = 2;
    let storage = StorageEngine::new(config).unwrap();
    (storage, temp)
}

fn stored_count(storage: &StorageEngine, rel: &str) -> usize {
    storage
        .get_relation_metadata(rel)
        .unwrap()
        .map_or(0, |(_, n)| n)
}

#[test]
fn bulk_insert_with_non_adjacent_in_batch_duplicate() {
    let (storage, _temp) = create_test_storage();

    // 80 tuples, (0,0) appears at index 0 and again at index 40.
    let mut batch: Vec<(i32, i32)> = (0..80).map(|i| (i, i)).collect();
    batch[40] = (0, 0);
    let distinct: BTreeSet<(i32, i32)> = batch.iter().copied().collect();
    assert_eq!(distinct.len(), 79);

    let (new_count, dup_count) = storage.insert("edge", batch).unwrap();
    assert_eq!(new_count, 79, "insert must report exactly the absent tuples as new");
    assert_eq!(dup_count, 1, "the in-batch repeat is a duplicate");
    assert_eq!(stored_count(&storage, "edge"), 79, "relation is a set");

    let deleted = storage.delete("edge", vec![(0, 0)]).unwrap();
    assert_eq!(deleted, 1, "delete reports exactly the number of tuples removed");
    assert_eq!(stored_count(&storage, "edge"), 78);
}

#[test]
fn random_history_against_set_model() {
    let (storage, _temp) = create_test_storage();
    let mut model: BTreeSet<(i32, i32)> = BTreeSet::new();
    let mut seed: u64 = 0x00C3_2C32_1234_5678;
    let mut next = |m: u64| -> u64 {
        seed = seed
            .wrapping_mul(6364136223846793005)
            .wrapping_add(1442695040888963407);
        (seed >> 33) % m
    };

    for step in 0..40 {
        if next(3) < 2 {
            // bulk insert, 1..=120 tuples over a small domain => in-batch duplicates
            let n = 1 + next(120) as usize;
            let batch: Vec<(i32, i32)> = (0..n)
                .map(|_| (next(12) as i32, next(12) as i32))
                .collect();
            let mut expected_new = 0;
            for t in &batch {
                if model.insert(*t) {
                    expected_new += 1;
                }
            }
            let (new_count, dup_count) = storage.insert("r", batch.clone()).unwrap();
            assert_eq!(new_count, expected_new, "step {step}: new count (batch of {n})");
            assert_eq!(dup_count, n - expected_new, "step {step}: dup count");
        } else {
            let n = 1 + next(10) as usize;
            let batch: Vec<(i32, i32)> = (0..n)
                .map(|_| (next(12) as i32, next(12) as i32))
                .collect();
            let mut expected_del = 0;
            for t in &batch {
                if model.remove(t) {
                    expected_del += 1;
                }
            }
            let deleted = storage.delete("r", batch).unwrap();
            assert_eq!(deleted, expected_del, "step {step}: deleted count");
        }
        assert_eq!(stored_count(&storage, "r"), model.len(), "step {step}: cardinality");
    }
}
