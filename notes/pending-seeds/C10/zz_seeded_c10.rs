//! Seeded-defect demonstration for C10 (session state is isolated).
//!
//! A request-scoped session fact (`banned(1)` without `+`) must never alter
//! persistent facts. The request below carries a session fact followed by a
//! conditional delete whose condition mentions the session fact's relation.
//! The condition must be evaluated against persistent data only, so only the
//! edge whose source is *persistently* banned may be removed.

use inputlayer::protocol::Handler;
use inputlayer::{Config, StorageEngine};
use tempfile::TempDir;

fn create_test_handler() -> (Handler, TempDir) {
    let temp = TempDir::new().unwrap();
    let mut config = Config::default();
    config.storage.data_dir = temp.path().to_path_buf();
    let storage = StorageEngine::new(config).unwrap();
    let handler = Handler::new(storage);
    (handler, temp)
}

fn edge_pairs(result: &inputlayer::protocol::QueryResult) -> Vec<String> {
    let mut rows: Vec<String> = result
        .rows
        .iter()
        .map(|r| format!("{:?}", r.values))
        .collect();
    rows.sort();
    rows
}

#[tokio::test]
async fn request_scoped_session_fact_does_not_drive_persistent_delete() {
    let (handler, _tmp) = create_test_handler();

    handler
        .query_program(None, "+edge[(1,2),(2,3),(3,4)]".to_string())
        .await
        .unwrap();
    handler
        .query_program(None, "+banned[(3,)]".to_string())
        .await
        .unwrap();

    // Another (WebSocket-style) session observing the shared KG.
    let observer = handler.create_session("default").unwrap();
    let before = handler
        .execute_program(Some(&observer), None, "?edge(X, Y)".to_string(), None)
        .await
        .unwrap();
    assert_eq!(before.rows.len(), 3);

    // One request: an ephemeral fact, then a conditional delete.
    let program = "banned(1)\n-edge(X, _Y) <- banned(X)".to_string();
    let _ = handler.query_program(None, program).await;

    // Persistent data: only (3,4) may be gone (3 is persistently banned).
    let after = handler
        .query_program(None, "?edge(X, Y)".to_string())
        .await
        .unwrap();
    let after_observer = handler
        .execute_program(Some(&observer), None, "?edge(X, Y)".to_string(), None)
        .await
        .unwrap();
    assert_eq!(
        after.rows.len(),
        2,
        "the ephemeral fact banned(1) altered persistent facts: remaining edges {:?}",
        edge_pairs(&after)
    );
    assert_eq!(
        edge_pairs(&after),
        edge_pairs(&after_observer),
        "observer session sees different persistent data"
    );

    // The ephemeral fact itself was not persisted either.
    let banned = handler
        .query_program(None, "?banned(X)".to_string())
        .await
        .unwrap();
    assert_eq!(banned.rows.len(), 1, "banned(1) must stay ephemeral");
}
