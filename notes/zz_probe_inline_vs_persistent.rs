use inputlayer::protocol::Handler;
use inputlayer::{Config, StorageEngine};
use tempfile::TempDir;
fn handler() -> (Handler, TempDir) {
    let temp = TempDir::new().unwrap();
    let mut config = Config::default();
    config.storage.data_dir = temp.path().to_path_buf();
    (Handler::new(StorageEngine::new(config).unwrap()), temp)
}
const FACTS: &[&str] = &[
    "+e[(1,1),(1,2),(2,3),(3,3),(3,4)]", "+m[(1,7),(3,8),(3,9),(4,1)]", "+n[(1),(2),(3),(4),(5)]", "+w[(1,10),(2,20),(2,5),(3,7)]",
];
async fn rows(h: &Handler, prog: &str) -> Result<Vec<String>, String> {
    let r = h.query_program(None, prog.to_string()).await?;
    let mut v: Vec<String> = r.rows.iter().map(|t| format!("{:?}", t)).collect();
    v.sort(); v.dedup(); Ok(v)
}
#[tokio::test]
async fn inline_vs_persistent() {
    let cases: Vec<(Vec<&str>, &str)> = vec![
        (vec!["p(X) <- n(X), m(X,_)", "p(X) <- e(X,X)"], "?p(X)"),
        (vec!["tc(X,Y) <- e(X,Y)", "tc(X,Z) <- tc(X,Y), e(Y,Z)"], "?tc(1,Y)"),
        (vec!["even(X) <- m(X,_), n(X)", "odd(Y) <- even(X), e(X,Y)", "even(Y) <- odd(X), e(X,Y)"], "?even(X)"),
        (vec!["d(Y) <- m(Y,_)", "p(X) <- e(X,Y), n(X), !d(Y)"], "?p(X)"),
        (vec!["s(X, sum<V>) <- w(X,V), n(X)"], "?s(X,S)"),
        (vec!["p(X,S) <- e(X,Y), m(Y,Z), S = Y * (Z - 1)"], "?p(X,S)"),
        (vec!["p(X,Y) <- e(X,_), e(Y,_), X < Y"], "?p(X,Y)"),
        (vec!["p(X,S) <- e(X,Y), m(Y,Z), S = Z / 2.0"], "?p(X,S)"),
        (vec!["p(X) <- n(X), X + 1 > 3"], "?p(X)"),
    ];
    let mut bad = Vec::new();
    for (ci, (rules, q)) in cases.iter().enumerate() {
        // inline: one program
        let (h1, _t1) = handler();
        for f in FACTS { h1.query_program(None, f.to_string()).await.unwrap(); }
        let inline = rows(&h1, &(rules.join("\n") + "\n" + q)).await;
        // persistent: registered one by one, then queried
        let (h2, _t2) = handler();
        for f in FACTS { h2.query_program(None, f.to_string()).await.unwrap(); }
        let mut reg_err = None;
        for r in rules { if let Err(e) = h2.query_program(None, format!("+{r}")).await { reg_err = Some(e); } }
        let pers = match reg_err { Some(e) => Err(format!("register: {e}")), None => rows(&h2, q).await };
        println!("CASE {ci}: inline {:?} rows", inline.as_ref().map(|v| v.len()));
        if inline != pers { bad.push(format!("case {ci}: inline {:?} vs persistent {:?}", inline, pers)); }
    }
    for b in &bad { println!("DIFF {}", &b[..b.len().min(600)]); }
    assert!(bad.is_empty());
}
