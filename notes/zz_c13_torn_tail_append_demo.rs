use inputlayer::config::DurabilityMode;
use inputlayer::storage::persist::batch::Update;
use inputlayer::storage::persist::{FilePersist, PersistBackend, PersistConfig};
use inputlayer::value::Tuple;
use std::io::Write;
use tempfile::TempDir;
fn open(p: &std::path::Path) -> FilePersist {
    FilePersist::new(PersistConfig { path: p.to_path_buf(), buffer_size: 100, durability_mode: DurabilityMode::Immediate, ..Default::default() }).unwrap()
}
#[test]
fn append_after_a_torn_only_wal_survives_the_next_crash() {
    let temp = TempDir::new().unwrap();
    std::fs::create_dir_all(temp.path().join("wal")).unwrap();
    // the crash left only a torn partial line, without a newline
    let mut f = std::fs::File::create(temp.path().join("wal/current.wal")).unwrap();
    write!(f, "deadbeef:{{\"shard\":\"db:edge\",\"upd").unwrap();
    drop(f);
    {
        let p = open(temp.path());
        p.ensure_shard("db:edge").unwrap();
        p.append("db:edge", &[Update::insert(Tuple::from_pair(1, 2), 10)]).unwrap(); // acknowledged
        // crash: no flush
    }
    let p = open(temp.path());
    let ups = p.read("db:edge", 0).unwrap();
    assert_eq!(ups.len(), 1, "the acknowledged append must be recovered: {ups:?}");
}
