use inputlayer::{IQLEngine, Tuple, Value};
fn t(v: &[i64]) -> Tuple { Tuple::new(v.iter().map(|&x| Value::Int64(x)).collect()) }
fn run(limit: usize) -> Vec<Tuple> {
    let mut e = IQLEngine::new();
    e.add_tuples("n", vec![t(&[1]), t(&[2]), t(&[3])]);
    e.set_max_result_rows(limit);
    let mut r = e.execute_tuples("a(X) <- n(X)\nb(X) <- n(X), !a(X)\n").expect("query");
    r.sort(); r
}
#[test]
fn limit_only_truncates_the_true_answer() {
    let full = run(0);
    assert!(full.is_empty(), "true answer of b is empty: {full:?}");
    for n in 1..4 {
        let lim = run(n);
        assert!(lim.iter().all(|x| full.contains(x)), "limit {n}: returned {lim:?}, not a subset of the true answer {full:?}");
    }
}
