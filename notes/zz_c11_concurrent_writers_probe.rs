//! Scratch probes of the UNCHANGED code (not part of the seeded demo).
use inputlayer::{Config, StorageEngine, Tuple, Value};
use std::sync::{Arc, Barrier};
use tempfile::TempDir;

fn open(dir: &std::path::Path) -> StorageEngine {
    let mut config = Config::default();
    config.storage.data_dir = dir.to_path_buf();
    config.storage.performance.num_threads = 2;
    StorageEngine::new(config).unwrap()
}

fn contents(storage: &StorageEngine, rel: &str) -> Vec<String> {
    if !storage.list_relations().unwrap().iter().any(|r| r == rel) {
        return vec![];
    }
    let mut v: Vec<String> = storage
        .execute_query_tuples(&format!("result(X,Y) <- {rel}(X,Y)"))
        .unwrap()
        .iter()
        .map(|t| format!("{t:?}"))
        .collect();
    v.sort();
    v
}

fn check(name: &str, f: impl Fn(&StorageEngine), save: bool) -> bool {
    let temp = TempDir::new().unwrap();
    let storage = open(temp.path());
    f(&storage);
    if save {
        if let Err(e) = storage.save_all() {
            println!("PROBE {name}: save_all failed: {e}");
        }
    }
    let before = contents(&storage, "m");
    drop(storage);
    let storage = open(temp.path());
    let after = contents(&storage, "m");
    let ok = before == after;
    println!("PROBE {name} (save={save}): {}\n  before={before:?}\n  after ={after:?}", if ok { "same" } else { "DIVERGES" });
    ok
}

#[test]
fn probes() {
    let mut bad = vec![];
    for save in [false, true] {
        let cases: Vec<(&str, Box<dyn Fn(&StorageEngine)>)> = vec![
            ("nan", Box::new(|s| {
                s.insert_tuples("m", vec![Tuple::new(vec![Value::Float64(f64::NAN), Value::Int32(1)])]).unwrap();
            })),
            ("inf", Box::new(|s| {
                s.insert_tuples("m", vec![Tuple::new(vec![Value::Float64(f64::INFINITY), Value::Int32(1)])]).unwrap();
            })),
            ("vec_nan", Box::new(|s| {
                s.insert_tuples("m", vec![Tuple::new(vec![Value::Vector(Arc::new(vec![f32::NAN, 1.0])), Value::Int32(1)])]).unwrap();
            })),
            ("null_first", Box::new(|s| {
                s.insert_tuples("m", vec![Tuple::new(vec![Value::Null, Value::Int32(1)])]).unwrap();
                s.insert_tuples("m", vec![Tuple::new(vec![Value::Int32(7), Value::Int32(1)])]).unwrap();
            })),
            ("mixed_int", Box::new(|s| {
                s.insert_tuples("m", vec![Tuple::new(vec![Value::Int32(1), Value::Int32(2)])]).unwrap();
                s.insert_tuples("m", vec![Tuple::new(vec![Value::Int64(5), Value::Int32(2)])]).unwrap();
            })),
            ("mixed_int_str", Box::new(|s| {
                s.insert_tuples("m", vec![Tuple::new(vec![Value::Int32(1), Value::Int32(2)])]).unwrap();
                s.insert_tuples("m", vec![Tuple::new(vec![Value::String(Arc::from("x")), Value::Int32(2)])]).unwrap();
            })),
            ("neg_zero", Box::new(|s| {
                s.insert_tuples("m", vec![Tuple::new(vec![Value::Float64(-0.0), Value::Int32(2)])]).unwrap();
                s.insert_tuples("m", vec![Tuple::new(vec![Value::Float64(0.0), Value::Int32(2)])]).unwrap();
                s.delete_tuple("m", &Tuple::new(vec![Value::Float64(0.0), Value::Int32(2)])).unwrap();
            })),
        ];
        for (name, f) in cases {
            if !check(name, f, save) {
                bad.push(format!("{name}/save={save}"));
            }
        }
    }
    // delete logged to the WAL after the insert went to parquet
    for (name, t) in [
        ("del_after_save_i64", Tuple::new(vec![Value::Int64(5), Value::Int64(6)])),
        ("del_after_save_ts", Tuple::new(vec![Value::Timestamp(5), Value::Int32(6)])),
        ("del_after_save_f", Tuple::new(vec![Value::Float64(0.1), Value::Int32(6)])),
        ("del_after_save_vec", Tuple::new(vec![Value::Vector(Arc::new(vec![0.1, 0.2])), Value::Int32(6)])),
        ("del_after_save_veci8", Tuple::new(vec![Value::VectorInt8(Arc::new(vec![1, -2])), Value::Int32(6)])),
        ("del_after_save_bool", Tuple::new(vec![Value::Bool(true), Value::Int32(6)])),
        ("del_after_save_str", Tuple::new(vec![Value::String(Arc::from("")), Value::Int32(6)])),
    ] {
        let temp = TempDir::new().unwrap();
        let storage = open(temp.path());
        storage.insert_tuples("m", vec![t.clone()]).unwrap();
        storage.save_all().unwrap();
        drop(storage);
        let storage = open(temp.path());
        let loaded = contents(&storage, "m");
        storage.delete_tuple("m", &t).unwrap();
        let before = contents(&storage, "m");
        drop(storage);
        let storage = open(temp.path());
        let after = contents(&storage, "m");
        println!("PROBE {name}: loaded={loaded:?} before={before:?} after={after:?}");
        if before != after {
            bad.push(name.to_string());
        }
    }
    println!("PROBE SUMMARY diverging: {bad:?}");
}

/// Two writers race on the same tuple: the logical time is drawn before the log
/// append and the in-memory apply happens later under another lock.
#[test]
fn probe_concurrent_insert_delete_same_tuple() {
    let temp = TempDir::new().unwrap();
    let storage = Arc::new(open(temp.path()));
    let rounds = 400;
    for r in 0..rounds {
        let barrier = Arc::new(Barrier::new(2));
        let (s1, b1) = (storage.clone(), barrier.clone());
        let (s2, b2) = (storage.clone(), barrier.clone());
        let h1 = std::thread::spawn(move || {
            b1.wait();
            s1.insert("edge", vec![(r, 0)]).unwrap();
        });
        let h2 = std::thread::spawn(move || {
            b2.wait();
            s2.delete("edge", vec![(r, 0)]).unwrap();
        });
        h1.join().unwrap();
        h2.join().unwrap();
    }
    let mut before = storage.execute_query("result(X,Y) <- edge(X,Y)").unwrap();
    before.sort();
    drop(storage);
    let storage = open(temp.path());
    let mut after = storage.execute_query("result(X,Y) <- edge(X,Y)").unwrap_or_default();
    after.sort();
    let only_before: Vec<_> = before.iter().filter(|t| !after.contains(t)).collect();
    let only_after: Vec<_> = after.iter().filter(|t| !before.contains(t)).collect();
    println!(
        "PROBE race: served {} tuples, after restart {}; only served: {:?}; only after restart: {:?}",
        before.len(), after.len(), only_before, only_after
    );
}
