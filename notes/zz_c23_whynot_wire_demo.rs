use inputlayer::protocol::Handler;
use inputlayer::{Config, StorageEngine};
use tempfile::TempDir;
fn handler() -> (Handler, TempDir) {
    let temp = TempDir::new().unwrap();
    let mut config = Config::default();
    config.storage.data_dir = temp.path().to_path_buf();
    (Handler::new(StorageEngine::new(config).unwrap()), temp)
}
async fn text(h: &Handler, q: &str) -> String {
    let r = h.query_program(None, q.to_string()).await.expect(q);
    r.rows.iter().map(|t| format!("{:?}", t)).collect::<Vec<_>>().join("\n")
}
#[tokio::test]
async fn why_not_sees_derived_relations_over_the_wire() {
    let (h, _t) = handler();
    for s in ["+base[(1)]", "+e[(1,2)]", "+m[(2)]", "+a(X) <- base(X)", "+b(X) <- a(X)", "+d(Y) <- m(Y)", "+q(X) <- e(X,Y), !d(Y)"] {
        h.query_program(None, s.to_string()).await.expect(s);
    }
    // b(2) is not derived because a(2) does not hold; b's clause mentions the derived relation a.
    // b(1) IS derived: asking why_not for it must not claim that the clause is blocked by a missing a(1).
    let t1 = text(&h, ".why_not b(1)").await;
    println!("WHYNOT b(1):\n{t1}\n");
    assert!(!t1.contains("No matching tuples in a"), "b(1) is derived; a(1) holds (derived): {t1}");
    // q(1) is blocked by the derived fact d(2)
    let t2 = text(&h, ".why_not q(1)").await;
    println!("WHYNOT q(1):\n{t2}\n");
    assert!(t2.to_lowercase().contains("d(2)") || t2.to_lowercase().contains("negat"), "the negation blocker d(2) must be reported: {t2}");
}
