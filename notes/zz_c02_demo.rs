use inputlayer::{IQLEngine, OptimizationConfig, Tuple, Value};
fn t(v: &[i64]) -> Tuple { Tuple::new(v.iter().map(|&x| Value::Int64(x)).collect()) }
fn cfg(bits: u32) -> OptimizationConfig {
    OptimizationConfig {
        enable_join_planning: bits & 1 != 0, enable_sip_rewriting: bits & 2 != 0, enable_subplan_sharing: bits & 4 != 0,
        enable_boolean_specialization: bits & 8 != 0, enable_magic_sets: bits & 16 != 0,
    }
}
fn run(bits: u32, prog: &str) -> Result<Vec<Tuple>, String> {
    let mut e = IQLEngine::with_config(cfg(bits));
    e.add_tuples("a", vec![t(&[1]), t(&[2]), t(&[7])]);
    e.add_tuples("b", vec![t(&[3, 10]), t(&[4, 20]), t(&[5, 30])]);
    e.add_tuples("c", vec![t(&[10]), t(&[30])]);
    e.add_tuples("e", vec![t(&[1, 2]), t(&[2, 3]), t(&[3, 4]), t(&[4, 1])]);
    let mut r = e.execute_tuples(prog)?; r.sort(); r.dedup(); Ok(r)
}
#[test]
fn switches_do_not_change_answers() {
    let progs = [
        "p(X) <- a(X)\np(X) <- b(X,Y), c(Y)\nq(X) <- p(X)\n",
        "p(X) <- b(X,Y), c(Y)\np(X) <- a(X)\nq(X) <- p(X)\n",
        "p(X) <- a(X)\np(X) <- b(X,Y), c(Y)\n",
        "r(X,Z) <- e(X,Y), e(Y,Z)\nr(X,Z) <- e(X,Z), a(X)\nq(X,Z) <- r(X,Z), a(Z)\n",
        "tc(X,Y) <- e(X,Y)\ntc(X,Z) <- tc(X,Y), e(Y,Z)\nq(Y) <- tc(1,Y)\n",
        "p(X) <- a(X), !c(X)\np(X) <- b(X,Y), c(Y)\nq(X) <- p(X), X > 1\n",
    ];
    let mut bad = Vec::new();
    for (pi, p) in progs.iter().enumerate() {
        let base = run(0, p);
        for bits in 1..32u32 {
            let got = run(bits, p);
            if got != base { bad.push(format!("prog {} bits {:05b}: {:?} vs base {:?}", pi, bits, got.as_ref().map(|v| v.len()), base.as_ref().map(|v| v.len()))); }
        }
        println!("BASE {} {:?}", pi, base);
    }
    for b in &bad { println!("DIFF {}", b); }
    assert!(bad.is_empty(), "{} differences", bad.len());
}
