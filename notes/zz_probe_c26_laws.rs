use inputlayer::vector_ops::*;
struct Lcg(u64);
impl Lcg { fn next(&mut self) -> u64 { self.0 = self.0.wrapping_mul(6364136223846793005).wrapping_add(1442695040888963407); self.0 >> 33 }
  fn f(&mut self) -> f32 { let k = self.next() % 10; let base = ((self.next() % 2001) as f32 - 1000.0) / 100.0; match k { 0 => 0.0, 1 => base * 1.0e6, 2 => base * 1.0e-6, _ => base } } }
#[test]
fn laws() {
    let mut r = Lcg(42);
    let mut bad = Vec::new();
    for it in 0..3000 {
        let d = 1 + (r.next() % 6) as usize;
        let a: Vec<f32> = (0..d).map(|_| r.f()).collect();
        let b: Vec<f32> = if it % 7 == 0 { a.clone() } else { (0..d).map(|_| r.f()).collect() };
        for (name, f) in [("euclid", euclidean_distance as fn(&[f32], &[f32]) -> f64), ("cos", cosine_distance), ("manh", manhattan_distance)] {
            let (x, y) = (f(&a, &b), f(&b, &a));
            if !(x == y || (x.is_nan() && y.is_nan())) { bad.push(format!("{name} asym {a:?} {b:?}: {x} {y}")); }
            if x < 0.0 { bad.push(format!("{name} negative {a:?} {b:?}: {x}")); }
            let z = f(&a, &a);
            let zero_vec = a.iter().all(|v| *v == 0.0);
            if name != "cos" && z != 0.0 { bad.push(format!("{name} self {a:?}: {z}")); }
            if name == "cos" && !zero_vec && z.abs() > 1e-6 { bad.push(format!("cos self {a:?}: {z}")); }
            if name == "cos" && !(x >= -1e-9 && x <= 2.0 + 1e-9) && !x.is_nan() { bad.push(format!("cos range {a:?} {b:?}: {x}")); }
            if name == "cos" && x.is_nan() { bad.push(format!("cos NaN {a:?} {b:?}")); }
        }
        // quantize / dequantize within one step
        let q = quantize_vector_linear(&a); let back = dequantize_vector(&q);
        let maxabs = a.iter().fold(0f32, |m, v| m.max(v.abs()));
        let _ = (back, maxabs);
        // LSH probes
        let h = 1 + (r.next() % 12) as usize; let bucket = (r.next() % (1u64 << h)) as i64; let np = (r.next() % 20) as usize;
        let p = lsh_probes(bucket, h, np);
        if !p.is_empty() {
            if p[0] != bucket { bad.push(format!("probes do not start at bucket {bucket} h{h} n{np}: {p:?}")); }
            let mut s = p.clone(); s.sort(); s.dedup(); if s.len() != p.len() { bad.push(format!("probes not distinct {bucket} h{h} n{np}: {p:?}")); }
            let hd: Vec<i64> = p.iter().map(|x| hamming_distance(*x, bucket)).collect();
            if hd.windows(2).any(|w| w[0] > w[1]) { bad.push(format!("probes hamming not monotone {bucket} h{h} n{np}: {p:?} {hd:?}")); }
            if p.iter().any(|x| *x < 0 || *x >= (1i64 << h)) { bad.push(format!("probe out of range {bucket} h{h}: {p:?}")); }
        }
        // LSH bucket independent of cache state
        let tbl = (r.next() % 4) as i64;
        let b1 = lsh_bucket(&a, tbl, h); clear_lsh_cache(); let b2 = lsh_bucket(&a, tbl, h);
        configure_lsh_cache_size(1); let b3 = lsh_bucket(&a, tbl, h); let _ = lsh_bucket(&b, (tbl + 1) % 4, h); let b4 = lsh_bucket(&a, tbl, h); configure_lsh_cache_size(1000);
        if !(b1 == b2 && b2 == b3 && b3 == b4) { bad.push(format!("lsh bucket depends on cache: {b1} {b2} {b3} {b4}")); }
    }
    bad.sort(); bad.dedup();
    for b in bad.iter().take(25) { println!("BAD {b}"); }
    assert!(bad.is_empty(), "{} violations", bad.len());
}
