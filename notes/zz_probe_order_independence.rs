use inputlayer::{IQLEngine, Tuple, Value};
fn t(v: &[i64]) -> Tuple { Tuple::new(v.iter().map(|&x| Value::Int64(x)).collect()) }
fn run(rules: &[String], query: &str) -> Result<Vec<Tuple>, String> {
    let mut e = IQLEngine::new();
    e.add_tuples("e", vec![t(&[1,2]), t(&[2,3]), t(&[3,4]), t(&[4,2]), t(&[5,5])]);
    e.add_tuples("n", (1..7).map(|i| t(&[i])).collect());
    e.add_tuples("m", vec![t(&[2]), t(&[4]), t(&[6])]);
    e.add_tuples("w", vec![t(&[1,10]), t(&[2,20]), t(&[2,5]), t(&[3,7])]);
    let src = rules.join("\n") + "\n" + query + "\n";
    let mut r = e.execute_tuples(&src)?; r.sort(); r.dedup(); Ok(r)
}
fn perms<T: Clone>(v: &[T]) -> Vec<Vec<T>> {
    if v.len() <= 1 { return vec![v.to_vec()]; }
    let mut out = Vec::new();
    for i in 0..v.len() { let mut rest = v.to_vec(); let x = rest.remove(i); for mut p in perms(&rest) { p.insert(0, x.clone()); out.push(p); } }
    out
}
fn body_perms(rule: &str) -> Vec<String> {
    let (h, b) = rule.split_once(" <- ").unwrap();
    // split on top-level ", " between literals (no nested commas in these literals except inside parens)
    let mut lits = Vec::new(); let mut depth = 0; let mut cur = String::new();
    for ch in b.chars() { match ch { '(' | '<' => { depth += 1; cur.push(ch) } ')' | '>' => { depth -= 1; cur.push(ch) } ',' if depth == 0 => { lits.push(cur.trim().to_string()); cur.clear(); } _ => cur.push(ch) } }
    lits.push(cur.trim().to_string());
    perms(&lits).into_iter().map(|p| format!("{h} <- {}", p.join(", "))).collect()
}
#[test]
fn order_does_not_matter() {
    let progs: Vec<(Vec<&str>, &str)> = vec![
        (vec!["p(X) <- n(X), m(X)", "p(X) <- e(X,X)"], "q(X) <- p(X)"),
        (vec!["tc(X,Y) <- e(X,Y)", "tc(X,Z) <- tc(X,Y), e(Y,Z)"], "q(X,Y) <- tc(X,Y)"),
        (vec!["even(X) <- m(X), n(X)", "odd(Y) <- even(X), e(X,Y)", "even(Y) <- odd(X), e(X,Y)"], "q(X) <- even(X)"),
        (vec!["d(Y) <- m(Y)", "p(X) <- e(X,Y), n(X), !d(Y)"], "q(X) <- p(X)"),
        (vec!["s(X, sum<V>) <- w(X,V), n(X)", "p(X,S) <- s(X,S), m(X)"], "q(X,S) <- p(X,S)"),
        (vec!["p(X,Z) <- e(X,Y), e(Y,Z), n(Z), X < Z"], "q(X,Z) <- p(X,Z)"),
    ];
    let mut bad = Vec::new();
    for (pi, (rules, q)) in progs.iter().enumerate() {
        let base = run(&rules.iter().map(|s| s.to_string()).collect::<Vec<_>>(), q);
        println!("BASE {pi} {:?}", base.as_ref().map(|v| v.len()));
        // rule order permutations
        for p in perms(rules) {
            let got = run(&p.iter().map(|s| s.to_string()).collect::<Vec<_>>(), q);
            if got != base { bad.push(format!("prog {pi} rule order {:?}: {:?} vs {:?}", p, got.as_ref().map(|v| v.len()), base.as_ref().map(|v| v.len()))); }
        }
        // body literal permutations, one rule at a time
        for ri in 0..rules.len() {
            for variant in body_perms(rules[ri]) {
                let mut rs: Vec<String> = rules.iter().map(|s| s.to_string()).collect(); rs[ri] = variant.clone();
                let got = run(&rs, q);
                if got != base { bad.push(format!("prog {pi} body order `{variant}`: {:?} vs {:?}", got.as_ref().map(|v| v.len()).map_err(|e| e.clone()), base.as_ref().map(|v| v.len()))); }
            }
        }
        // repetition of a rule
        let mut rs: Vec<String> = rules.iter().map(|s| s.to_string()).collect(); rs.push(rules[0].to_string());
        let got = run(&rs, q);
        if got != base { bad.push(format!("prog {pi} repeated rule: {:?} vs {:?}", got.as_ref().map(|v| v.len()), base.as_ref().map(|v| v.len()))); }
    }
    for b in &bad { println!("DIFF {b}"); }
    assert!(bad.is_empty(), "{} differences", bad.len());
}
