use inputlayer::{IQLEngine, OptimizationConfig, Tuple, Value};
fn t(v: &[i64]) -> Tuple { Tuple::new(v.iter().map(|&x| Value::Int64(x)).collect()) }
fn cfg(bits: u32) -> OptimizationConfig {
    OptimizationConfig { enable_join_planning: bits & 1 != 0, enable_sip_rewriting: bits & 2 != 0, enable_subplan_sharing: bits & 4 != 0, enable_boolean_specialization: bits & 8 != 0, enable_magic_sets: bits & 16 != 0 }
}
fn run(bits: u32, workers: usize, src: &str) -> Result<Vec<Tuple>, String> {
    let mut e = IQLEngine::with_config(cfg(bits));
    e.add_tuples("e", vec![t(&[1,2]), t(&[2,3]), t(&[3,4]), t(&[4,2]), t(&[5,5])]);
    e.add_tuples("n", (1..7).map(|i| t(&[i])).collect());
    e.add_tuples("w", vec![t(&[1,2,10]), t(&[2,3,1]), t(&[1,3,20]), t(&[3,4,2]), t(&[1,4,50])]);
    e.add_tuples("name", vec![Tuple::new(vec![Value::Int64(1), Value::string("ann")]), Tuple::new(vec![Value::Int64(2), Value::string("bob")]), Tuple::new(vec![Value::Int64(3), Value::string("ann")])]);
    e.set_num_workers(workers);
    let mut r = e.execute_tuples(src)?; r.sort(); r.dedup(); Ok(r)
}
#[test]
fn more_shapes_3() {
    let progs: Vec<(&str, usize)> = vec![
        ("q(X,X) <- n(X), e(X,_)\n", 5),
        ("q(X,7) <- e(X,5)\n", 1),
        ("q(X,S) <- e(X,Y), S = X * 10 + Y\n", 5),
        ("sp(X,Y,min<D>) <- w(X,Y,D)\nsp(X,Z,min<D>) <- sp(X,Y,D1), w(Y,Z,D2), D = D1 + D2\nq(X,Y,D) <- sp(X,Y,D)\n", 6),
        ("deg(X, count<Y>) <- e(X,Y)\nq(X) <- n(X), !deg(X,_)\n", 1),
        ("q(N, count<X>) <- name(X,N)\n", 2),
        ("q(X,Y) <- name(X,N), name(Y,N), X < Y\n", 1),
        ("r(X) <- e(X,Y), e(Y,X)\nr(X) <- e(X,X)\nq(X) <- n(X), !r(X)\n", 5),
        ("tc(X,Y) <- e(X,Y)\ntc(X,Z) <- tc(X,Y), e(Y,Z)\nc(X, count<Y>) <- tc(X,Y)\nq(X,C) <- c(X,C), C > 2\n", 4),
        ("q(X,Y) <- e(X,Y), n(X), n(Y), X + Y > 5, X < Y\n", 1),
    ];
    let mut bad = Vec::new();
    for (pi, (p, want)) in progs.iter().enumerate() {
        let base = run(0, 1, p);
        match &base { Ok(v) => { if v.len() != *want { bad.push(format!("prog {pi} base: {} rows, expected {want}: {:?}", v.len(), v)); } } Err(e) => bad.push(format!("prog {pi} base Err {e}")) }
        for bits in 1..32u32 { for w in [1usize, 3] {
            let got = run(bits, w, p);
            if got != base { bad.push(format!("prog {pi} bits {bits:05b} w{w}: {:?} vs base {:?}", got.as_ref().map(|v| v.len()).map_err(|e| e.clone()), base.as_ref().map(|v| v.len()).map_err(|e| e.clone()))); }
        } }
    }
    let mut seen = std::collections::BTreeMap::new();
    for b in &bad { let k: String = b.split(" bits").next().unwrap().to_string(); *seen.entry(k).or_insert(0) += 1; }
    for (k, c) in &seen { println!("DIFFSUM {k}: {c}"); }
    for b in bad.iter().take(12) { println!("DIFF {}", &b[..b.len().min(300)]); }
    assert!(bad.is_empty(), "{} differences", bad.len());
}
