//! Scratch probes against the UNCHANGED code (not a deliverable; removed afterwards).
//! Each probe prints what it sees; run with --nocapture.

use inputlayer::{IQLEngine, OptimizationConfig, Tuple, Value};

fn edges() -> Vec<Tuple> {
    [(1, 2), (2, 3), (3, 4), (10, 11), (11, 12)]
        .iter()
        .map(|&(a, b)| Tuple::new(vec![Value::Int64(a), Value::Int64(b)]))
        .collect()
}

fn engine(magic: bool) -> IQLEngine {
    let mut e = IQLEngine::with_config(OptimizationConfig {
        enable_magic_sets: magic,
        ..Default::default()
    });
    e.add_tuples("edge", edges());
    e
}

fn sorted(mut rows: Vec<Tuple>) -> Vec<Tuple> {
    rows.sort();
    rows.dedup();
    rows
}

const TC: &str = "reach(X, Y) <- edge(X, Y)\nreach(X, Z) <- reach(X, Y), edge(Y, Z)\n";

#[test]
fn p1_query_adds_a_relation_to_input_tuples() {
    let mut e = engine(true);
    let before: Vec<String> = {
        let mut k: Vec<String> = e.input_tuples().keys().cloned().collect();
        k.sort();
        k
    };
    let _ = e
        .execute_tuples(&format!("{TC}__query__(_c0, Y) <- reach(_c0, Y), _c0 = 1"))
        .unwrap();
    let mut after: Vec<String> = e.input_tuples().keys().cloned().collect();
    after.sort();
    println!("P1 before={before:?} after={after:?}");
    println!("P1 magic rows = {:?}", e.get_relation("magic_reach_bf"));
    assert_eq!(before, after, "P1: a query changed the engine's stored relations");
}

#[test]
fn p1b_same_query_twice_raw_rows() {
    let mut e = engine(true);
    let q = format!("{TC}__query__(_c0, Y) <- reach(_c0, Y), _c0 = 1");
    let a = e.execute_tuples(&q).unwrap();
    let b = e.execute_tuples(&q).unwrap();
    println!("P1b first={} rows second={} rows", a.len(), b.len());
    println!("P1b magic rows = {:?}", e.get_relation("magic_reach_bf"));
    assert_eq!(a.len(), b.len(), "P1b: the same query twice gives different row counts");
}

#[test]
fn p2_rule_reading_the_bound_relation_unbound() {
    let q = format!(
        "{TC}far(X, Y) <- reach(X, Y), X >= 10\n__query__(_c0, Y, A, B) <- reach(_c0, Y), far(A, B), _c0 = 1"
    );
    let with = sorted(engine(true).execute_tuples(&q).unwrap());
    let without = sorted(engine(false).execute_tuples(&q).unwrap());
    println!("P2 magic={} rows, no-magic={} rows", with.len(), without.len());
    assert_eq!(with, without, "P2: magic sets changes the answer");
}

#[test]
fn p3_two_bound_atoms_of_one_relation() {
    let q = format!(
        "{TC}__query__(_c0, Y, _c1, Z) <- reach(_c0, Y), reach(_c1, Z), _c0 = 1, _c1 = 10"
    );
    let with = sorted(engine(true).execute_tuples(&q).unwrap());
    let without = sorted(engine(false).execute_tuples(&q).unwrap());
    println!("P3 magic={} rows, no-magic={} rows", with.len(), without.len());
    assert_eq!(with, without, "P3: magic sets changes the answer");
}

#[test]
fn p4_clause_order_and_repetition() {
    let base = sorted(
        engine(true)
            .execute_tuples(&format!("{TC}__query__(X, Y) <- reach(X, Y)"))
            .unwrap(),
    );
    let swapped = sorted(
        engine(true)
            .execute_tuples(
                "reach(X, Z) <- reach(X, Y), edge(Y, Z)\nreach(X, Y) <- edge(X, Y)\n__query__(X, Y) <- reach(X, Y)",
            )
            .unwrap(),
    );
    let repeated = sorted(
        engine(true)
            .execute_tuples(&format!("{TC}{TC}__query__(X, Y) <- reach(X, Y)"))
            .unwrap(),
    );
    println!(
        "P4 base={} swapped={} repeated={}",
        base.len(),
        swapped.len(),
        repeated.len()
    );
    assert_eq!(base, swapped, "P4: clause order");
    assert_eq!(base, repeated, "P4: clause repetition");
}

#[test]
fn p5_history_changes_answer_on_unchanged_code() {
    let q = format!(
        "{TC}__query__(_c0, Y, _c1, Z) <- reach(_c0, Y), reach(_c1, Z), _c0 = 1, _c1 = 10"
    );
    let fresh = sorted(engine(true).execute_tuples(&q).unwrap());
    let mut e = engine(true);
    let _ = e
        .execute_tuples(&format!("{TC}__query__(_c0, Y) <- reach(_c0, Y), _c0 = 1"))
        .unwrap();
    let _ = e
        .execute_tuples(&format!("{TC}__query__(_c0, Y) <- reach(_c0, Y), _c0 = 10"))
        .unwrap();
    let reused = sorted(e.execute_tuples(&q).unwrap());
    println!("P5 fresh={} rows, after-history={} rows", fresh.len(), reused.len());
    assert_eq!(fresh, reused, "P5: engine history changes the answer");
}
