#!/bin/sh
# Build the two fact extractors offline and warm the dependency target dir.
set -e
cd "$(dirname "$0")"
export CARGO_NET_OFFLINE=true
(cd tools/ilfacts && cargo build --offline --release 2>&1 | tail -2)
(cd tools/ilsyn && cargo build --offline --release 2>&1 | tail -2)
# one extraction: checks the repository's dependencies with plain rustc (cached in
# .cache/target) and leaves the facts of the current tree in .cache/facts/<hash>
python3 ilcheck_lib/extract.py
