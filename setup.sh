#!/bin/sh
set -e
cd "$(dirname "$0")"
