// ilsyn: syntax-table extractor. Parses every .rs file under <src> with syn and
// emits, for each non-test fn, a compact JSON syntax tree of its body (match
// arms with patterns, guards and bodies; calls; macros with their arguments).
// Used only where the *shape of an arm* is the fact; callees/paths/locks come
// from the MIR facts.
use proc_macro2::Span;
use quote::ToTokens;
use std::fmt::Write as _;
use syn::spanned::Spanned;

fn esc(s: &str) -> String {
    let mut o = String::with_capacity(s.len() + 2);
    o.push('"');
    for c in s.chars() {
        match c {
            '"' => o.push_str("\\\""),
            '\\' => o.push_str("\\\\"),
            '\n' => o.push_str("\\n"),
            '\r' => o.push_str("\\r"),
            '\t' => o.push_str("\\t"),
            c if (c as u32) < 0x20 => {
                let _ = write!(o, "\\u{:04x}", c as u32);
            }
            c => o.push(c),
        }
    }
    o.push('"');
    o
}

fn ln(sp: Span) -> usize {
    sp.start().line
}

fn toks<T: ToTokens>(t: &T) -> String {
    let s = t.to_token_stream().to_string();
    // normalise the token printer's spacing around `::`
    s.replace(" :: ", "::").replace(":: ", "::").replace(" ::", "::")
}

fn path_str(p: &syn::Path) -> String {
    let mut s = String::new();
    if p.leading_colon.is_some() {
        s.push_str("::");
    }
    let mut first = true;
    for seg in p.segments.iter() {
        if !first {
            s.push_str("::");
        }
        first = false;
        s.push_str(&seg.ident.to_string());
    }
    s
}

fn pat(p: &syn::Pat) -> String {
    use syn::Pat::*;
    match p {
        Wild(_) => "{\"p\":\"wild\"}".into(),
        Ident(i) => {
            let mut s = format!("{{\"p\":\"ident\",\"name\":{}", esc(&i.ident.to_string()));
            if i.by_ref.is_some() {
                s.push_str(",\"ref\":1");
            }
            if let Some((_, sub)) = &i.subpat {
                let _ = write!(s, ",\"sub\":{}", pat(sub));
            }
            s.push('}');
            s
        }
        Path(pp) => format!("{{\"p\":\"path\",\"path\":{}}}", esc(&path_str(&pp.path))),
        TupleStruct(ts) => {
            let mut s = format!("{{\"p\":\"ts\",\"path\":{},\"elems\":[", esc(&path_str(&ts.path)));
            for (i, e) in ts.elems.iter().enumerate() {
                if i > 0 {
                    s.push(',');
                }
                s.push_str(&pat(e));
            }
            s.push_str("]}");
            s
        }
        Struct(st) => {
            let mut s = format!("{{\"p\":\"struct\",\"path\":{},\"fields\":[", esc(&path_str(&st.path)));
            for (i, f) in st.fields.iter().enumerate() {
                if i > 0 {
                    s.push(',');
                }
                let name = match &f.member {
                    syn::Member::Named(n) => n.to_string(),
                    syn::Member::Unnamed(u) => u.index.to_string(),
                };
                let _ = write!(s, "[{},{}]", esc(&name), pat(&f.pat));
            }
            let _ = write!(s, "],\"rest\":{}}}", st.rest.is_some());
            s
        }
        Tuple(t) => {
            let mut s = String::from("{\"p\":\"tuple\",\"elems\":[");
            for (i, e) in t.elems.iter().enumerate() {
                if i > 0 {
                    s.push(',');
                }
                s.push_str(&pat(e));
            }
            s.push_str("]}");
            s
        }
        Or(o) => {
            let mut s = String::from("{\"p\":\"or\",\"cases\":[");
            for (i, e) in o.cases.iter().enumerate() {
                if i > 0 {
                    s.push(',');
                }
                s.push_str(&pat(e));
            }
            s.push_str("]}");
            s
        }
        Lit(l) => format!("{{\"p\":\"lit\",\"v\":{}}}", esc(&toks(l))),
        Reference(r) => format!("{{\"p\":\"ref\",\"pat\":{}}}", pat(&r.pat)),
        Paren(p) => pat(&p.pat),
        Type(t) => pat(&t.pat),
        Rest(_) => "{\"p\":\"rest\"}".into(),
        Slice(sl) => {
            let mut s = String::from("{\"p\":\"slice\",\"elems\":[");
            for (i, e) in sl.elems.iter().enumerate() {
                if i > 0 {
                    s.push(',');
                }
                s.push_str(&pat(e));
            }
            s.push_str("]}");
            s
        }
        Range(r) => format!("{{\"p\":\"range\",\"t\":{}}}", esc(&toks(r))),
        Const(c) => format!("{{\"p\":\"const\",\"t\":{}}}", esc(&toks(c))),
        Macro(m) => format!("{{\"p\":\"macro\",\"t\":{}}}", esc(&toks(m))),
        _ => format!("{{\"p\":\"other\",\"t\":{}}}", esc(&toks(p))),
    }
}

fn opt_expr(e: &Option<Box<syn::Expr>>) -> String {
    match e {
        Some(x) => expr(x),
        None => "null".into(),
    }
}

fn block(b: &syn::Block) -> String {
    let mut s = format!("{{\"e\":\"block\",\"ln\":{},\"stmts\":[", ln(b.span()));
    let mut first = true;
    for st in b.stmts.iter() {
        if !first {
            s.push(',');
        }
        first = false;
        match st {
            syn::Stmt::Local(l) => {
                let _ = write!(s, "{{\"e\":\"let\",\"ln\":{},\"pat\":{}", ln(l.span()), pat(&l.pat));
                if let Some(init) = &l.init {
                    let _ = write!(s, ",\"init\":{}", expr(&init.expr));
                    if let Some((_, d)) = &init.diverge {
                        let _ = write!(s, ",\"else\":{}", expr(d));
                    }
                }
                s.push('}');
            }
            syn::Stmt::Item(_) => s.push_str("{\"e\":\"item\"}"),
            syn::Stmt::Expr(e, semi) => {
                if semi.is_some() {
                    let _ = write!(s, "{{\"e\":\"semi\",\"x\":{}}}", expr(e));
                } else {
                    s.push_str(&expr(e));
                }
            }
            syn::Stmt::Macro(m) => {
                s.push_str(&mac(&m.mac, ln(m.span())));
            }
        }
    }
    s.push_str("]}");
    s
}

fn mac(m: &syn::Macro, line: usize) -> String {
    let name = path_str(&m.path);
    let mut s = format!("{{\"e\":\"macro\",\"ln\":{},\"name\":{}", line, esc(&name));
    // try: comma-separated expressions
    let parsed = m.parse_body_with(syn::punctuated::Punctuated::<syn::Expr, syn::Token![,]>::parse_terminated);
    if let Ok(args) = parsed {
        s.push_str(",\"args\":[");
        for (i, a) in args.iter().enumerate() {
            if i > 0 {
                s.push(',');
            }
            s.push_str(&expr(a));
        }
        s.push(']');
    } else {
        let t = m.tokens.to_string();
        let t = if t.len() > 400 { t[..t.char_indices().nth(400).map(|x| x.0).unwrap_or(t.len())].to_string() } else { t };
        let _ = write!(s, ",\"tokens\":{}", esc(&t));
    }
    s.push('}');
    s
}

fn exprs<'a, I: Iterator<Item = &'a syn::Expr>>(it: I) -> String {
    let mut s = String::from("[");
    for (i, a) in it.enumerate() {
        if i > 0 {
            s.push(',');
        }
        s.push_str(&expr(a));
    }
    s.push(']');
    s
}

fn expr(e: &syn::Expr) -> String {
    use syn::Expr::*;
    let l = ln(e.span());
    match e {
        Match(m) => {
            let mut s = format!("{{\"e\":\"match\",\"ln\":{},\"on\":{},\"arms\":[", l, expr(&m.expr));
            for (i, a) in m.arms.iter().enumerate() {
                if i > 0 {
                    s.push(',');
                }
                let _ = write!(s, "{{\"ln\":{},\"pat\":{},\"guard\":", ln(a.span()), pat(&a.pat));
                match &a.guard {
                    Some((_, g)) => s.push_str(&expr(g)),
                    None => s.push_str("null"),
                }
                let _ = write!(s, ",\"body\":{}}}", expr(&a.body));
            }
            s.push_str("]}");
            s
        }
        If(i) => format!(
            "{{\"e\":\"if\",\"ln\":{},\"cond\":{},\"then\":{},\"else\":{}}}",
            l,
            expr(&i.cond),
            block(&i.then_branch),
            match &i.else_branch {
                Some((_, e)) => expr(e),
                None => "null".into(),
            }
        ),
        Let(x) => format!("{{\"e\":\"letc\",\"ln\":{},\"pat\":{},\"x\":{}}}", l, pat(&x.pat), expr(&x.expr)),
        Call(c) => format!("{{\"e\":\"call\",\"ln\":{},\"f\":{},\"args\":{}}}", l, expr(&c.func), exprs(c.args.iter())),
        MethodCall(m) => {
            let mut s = format!(
                "{{\"e\":\"mcall\",\"ln\":{},\"recv\":{},\"m\":{},\"args\":{}",
                l,
                expr(&m.receiver),
                esc(&m.method.to_string()),
                exprs(m.args.iter())
            );
            if let Some(t) = &m.turbofish {
                let _ = write!(s, ",\"tf\":{}", esc(&toks(t)));
            }
            s.push('}');
            s
        }
        Path(p) => format!("{{\"e\":\"path\",\"ln\":{},\"p\":{}}}", l, esc(&path_str(&p.path))),
        Lit(li) => {
            let (t, v) = match &li.lit {
                syn::Lit::Str(s) => ("str", s.value()),
                syn::Lit::Int(i) => ("int", i.to_string()),
                syn::Lit::Float(f) => ("float", f.to_string()),
                syn::Lit::Bool(b) => ("bool", b.value.to_string()),
                syn::Lit::Char(c) => ("char", c.value().to_string()),
                o => ("other", toks(o)),
            };
            format!("{{\"e\":\"lit\",\"ln\":{},\"t\":{},\"v\":{}}}", l, esc(t), esc(&v))
        }
        Macro(m) => mac(&m.mac, l),
        Block(b) => block(&b.block),
        Unsafe(b) => block(&b.block),
        Async(b) => format!("{{\"e\":\"async\",\"ln\":{},\"x\":{}}}", l, block(&b.block)),
        Closure(c) => {
            let mut s = format!("{{\"e\":\"closure\",\"ln\":{},\"params\":[", l);
            for (i, p) in c.inputs.iter().enumerate() {
                if i > 0 {
                    s.push(',');
                }
                s.push_str(&pat(p));
            }
            let _ = write!(s, "],\"body\":{}}}", expr(&c.body));
            s
        }
        Binary(b) => format!(
            "{{\"e\":\"bin\",\"ln\":{},\"op\":{},\"l\":{},\"r\":{}}}",
            l,
            esc(&toks(&b.op)),
            expr(&b.left),
            expr(&b.right)
        ),
        Unary(u) => format!("{{\"e\":\"un\",\"ln\":{},\"op\":{},\"x\":{}}}", l, esc(&toks(&u.op)), expr(&u.expr)),
        Reference(r) => format!("{{\"e\":\"ref\",\"ln\":{},\"mut\":{},\"x\":{}}}", l, r.mutability.is_some(), expr(&r.expr)),
        Field(f) => {
            let name = match &f.member {
                syn::Member::Named(n) => n.to_string(),
                syn::Member::Unnamed(u) => u.index.to_string(),
            };
            format!("{{\"e\":\"field\",\"ln\":{},\"x\":{},\"f\":{}}}", l, expr(&f.base), esc(&name))
        }
        Index(i) => format!("{{\"e\":\"index\",\"ln\":{},\"x\":{},\"i\":{}}}", l, expr(&i.expr), expr(&i.index)),
        Tuple(t) => format!("{{\"e\":\"tuple\",\"ln\":{},\"xs\":{}}}", l, exprs(t.elems.iter())),
        Array(a) => format!("{{\"e\":\"array\",\"ln\":{},\"xs\":{}}}", l, exprs(a.elems.iter())),
        Struct(st) => {
            let mut s = format!("{{\"e\":\"struct\",\"ln\":{},\"p\":{},\"fields\":[", l, esc(&path_str(&st.path)));
            for (i, f) in st.fields.iter().enumerate() {
                if i > 0 {
                    s.push(',');
                }
                let name = match &f.member {
                    syn::Member::Named(n) => n.to_string(),
                    syn::Member::Unnamed(u) => u.index.to_string(),
                };
                let _ = write!(s, "[{},{}]", esc(&name), expr(&f.expr));
            }
            let _ = write!(s, "],\"rest\":{}}}", opt_expr(&st.rest));
            s
        }
        Return(r) => format!("{{\"e\":\"ret\",\"ln\":{},\"x\":{}}}", l, opt_expr(&r.expr)),
        Try(t) => format!("{{\"e\":\"try\",\"ln\":{},\"x\":{}}}", l, expr(&t.expr)),
        Await(a) => format!("{{\"e\":\"await\",\"ln\":{},\"x\":{}}}", l, expr(&a.base)),
        Cast(c) => format!("{{\"e\":\"cast\",\"ln\":{},\"x\":{},\"ty\":{}}}", l, expr(&c.expr), esc(&toks(&c.ty))),
        Paren(p) => expr(&p.expr),
        Group(g) => expr(&g.expr),
        Assign(a) => format!("{{\"e\":\"assign\",\"ln\":{},\"l\":{},\"r\":{}}}", l, expr(&a.left), expr(&a.right)),
        ForLoop(f) => format!(
            "{{\"e\":\"for\",\"ln\":{},\"pat\":{},\"iter\":{},\"body\":{}}}",
            l,
            pat(&f.pat),
            expr(&f.expr),
            block(&f.body)
        ),
        While(w) => format!("{{\"e\":\"while\",\"ln\":{},\"cond\":{},\"body\":{}}}", l, expr(&w.cond), block(&w.body)),
        Loop(lp) => format!("{{\"e\":\"loop\",\"ln\":{},\"body\":{}}}", l, block(&lp.body)),
        Break(b) => format!("{{\"e\":\"break\",\"ln\":{},\"x\":{}}}", l, opt_expr(&b.expr)),
        Continue(_) => format!("{{\"e\":\"continue\",\"ln\":{}}}", l),
        Range(r) => format!(
            "{{\"e\":\"range\",\"ln\":{},\"a\":{},\"b\":{}}}",
            l,
            opt_expr(&r.start),
            opt_expr(&r.end)
        ),
        Repeat(r) => format!("{{\"e\":\"repeat\",\"ln\":{},\"x\":{},\"n\":{}}}", l, expr(&r.expr), expr(&r.len)),
        _ => {
            let t = toks(e);
            let t = if t.len() > 200 { t[..t.char_indices().nth(200).map(|x| x.0).unwrap_or(t.len())].to_string() } else { t };
            format!("{{\"e\":\"other\",\"ln\":{},\"t\":{}}}", l, esc(&t))
        }
    }
}

fn has_cfg_test(attrs: &[syn::Attribute]) -> bool {
    attrs.iter().any(|a| {
        a.path().is_ident("cfg") && {
            let t = a.meta.to_token_stream().to_string();
            t.contains("test") && !t.contains("not")
        }
    }) || attrs.iter().any(|a| a.path().is_ident("test"))
}

struct Out {
    s: String,
    n: usize,
}

fn emit_fn(
    out: &mut Out,
    file: &str,
    mods: &[String],
    impl_self: Option<&str>,
    impl_trait: Option<&str>,
    sig: &syn::Signature,
    vis: &str,
    body: &syn::Block,
    span: Span,
) {
    if out.n > 0 {
        out.s.push(',');
    }
    out.n += 1;
    let _ = write!(
        out.s,
        "\n{{\"file\":{},\"mods\":{},\"name\":{},\"line\":{},\"end\":{},\"vis\":{}",
        esc(file),
        esc(&mods.join("::")),
        esc(&sig.ident.to_string()),
        span.start().line,
        span.end().line,
        esc(vis)
    );
    if let Some(s) = impl_self {
        let _ = write!(out.s, ",\"impl_self\":{}", esc(s));
    }
    if let Some(s) = impl_trait {
        let _ = write!(out.s, ",\"impl_trait\":{}", esc(s));
    }
    out.s.push_str(",\"params\":[");
    for (i, a) in sig.inputs.iter().enumerate() {
        if i > 0 {
            out.s.push(',');
        }
        match a {
            syn::FnArg::Receiver(r) => {
                let _ = write!(out.s, "{}", esc(&toks(r)));
            }
            syn::FnArg::Typed(t) => {
                let _ = write!(out.s, "{}", esc(&toks(t)));
            }
        }
    }
    let _ = write!(out.s, "],\"ret\":{}", esc(&toks(&sig.output)));
    let _ = write!(out.s, ",\"body\":{}}}", block(body));
}

/// items declared inside a function body (e.g. a serde Visitor impl inside `deserialize`)
fn nested_items(out: &mut Out, file: &str, mods: &mut Vec<String>, b: &syn::Block) {
    let items: Vec<syn::Item> = b
        .stmts
        .iter()
        .filter_map(|s| if let syn::Stmt::Item(i) = s { Some(i.clone()) } else { None })
        .collect();
    if !items.is_empty() {
        walk_items(out, file, mods, &items);
    }
}

fn walk_items(out: &mut Out, file: &str, mods: &mut Vec<String>, items: &[syn::Item]) {
    for it in items {
        match it {
            syn::Item::Fn(f) => {
                if has_cfg_test(&f.attrs) {
                    continue;
                }
                emit_fn(out, file, mods, None, None, &f.sig, &toks(&f.vis), &f.block, f.span());
                nested_items(out, file, mods, &f.block);
            }
            syn::Item::Impl(im) => {
                if has_cfg_test(&im.attrs) {
                    continue;
                }
                let st = toks(&im.self_ty);
                let tr = im.trait_.as_ref().map(|(_, p, _)| toks(p));
                for ii in im.items.iter() {
                    if let syn::ImplItem::Fn(f) = ii {
                        if has_cfg_test(&f.attrs) {
                            continue;
                        }
                        emit_fn(out, file, mods, Some(&st), tr.as_deref(), &f.sig, &toks(&f.vis), &f.block, f.span());
                        nested_items(out, file, mods, &f.block);
                    }
                }
            }
            syn::Item::Trait(t) => {
                let st = format!("trait {}", t.ident);
                for ti in t.items.iter() {
                    if let syn::TraitItem::Fn(f) = ti {
                        if let Some(b) = &f.default {
                            emit_fn(out, file, mods, Some(&st), None, &f.sig, "", b, f.span());
                        }
                    }
                }
            }
            syn::Item::Mod(m) => {
                if has_cfg_test(&m.attrs) {
                    continue;
                }
                if let Some((_, items)) = &m.content {
                    mods.push(m.ident.to_string());
                    walk_items(out, file, mods, items);
                    mods.pop();
                }
            }
            _ => {}
        }
    }
}

fn walk_dir(dir: &std::path::Path, files: &mut Vec<std::path::PathBuf>) {
    let mut ents: Vec<_> = std::fs::read_dir(dir).unwrap().map(|e| e.unwrap().path()).collect();
    ents.sort();
    for p in ents {
        if p.is_dir() {
            walk_dir(&p, files);
        } else if p.extension().map(|e| e == "rs").unwrap_or(false) {
            files.push(p);
        }
    }
}

fn main() {
    let args: Vec<String> = std::env::args().collect();
    if args.len() < 3 {
        eprintln!("usage: ilsyn <src-dir> <out.json>");
        std::process::exit(2);
    }
    let src = std::path::Path::new(&args[1]);
    let root = src.parent().unwrap_or(src);
    let mut files = Vec::new();
    walk_dir(src, &mut files);
    let mut out = Out { s: String::from("{\"fns\":["), n: 0 };
    let mut nfiles = 0;
    for f in files.iter() {
        let rel = f.strip_prefix(root).unwrap_or(f).to_string_lossy().to_string();
        if rel.starts_with("src/bin/") {
            continue;
        }
        let text = std::fs::read_to_string(f).unwrap();
        match syn::parse_file(&text) {
            Ok(ast) => {
                nfiles += 1;
                let mut mods = Vec::new();
                walk_items(&mut out, &rel, &mut mods, &ast.items);
            }
            Err(e) => {
                eprintln!("ilsyn: parse error in {}: {}", rel, e);
                std::process::exit(3);
            }
        }
    }
    let _ = write!(out.s, "\n],\"files\":{},\"nfns\":{}}}\n", nfiles, out.n);
    std::fs::write(&args[2], out.s).unwrap();
}
