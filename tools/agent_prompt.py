#!/usr/bin/env python3
"""print the sub-agent brief for property ID (property text only; nothing from /verif's machinery)"""
import json, sys
pid = sys.argv[1]
variant = sys.argv[2] if len(sys.argv) > 2 else ""
p = [json.loads(l) for l in open('/verif/properties.jsonl') if json.loads(l)['id'] == pid][0]
wt = "/tmp/wt/%s%s" % (pid, variant)
print(f"""You are helping test a verification effort by playing the role of a developer who introduces a subtle bug.

Repository: a git worktree of the Rust project `inputlayer` (a Datalog-style incremental rules engine with WAL-backed persistence, provenance and HNSW vector search) at {wt}. Work ONLY inside {wt} (and your output directory). Do not read or write anything under /verif or /repo. There is no network; build with `--offline`. Always set `CARGO_TARGET_DIR={wt}-target` for every cargo command (e.g. `CARGO_TARGET_DIR={wt}-target cargo test --offline --lib some_test_name`), so that you do not collide with other builds. The first build takes several minutes. Disk space is tight and shared: also set `CARGO_INCREMENTAL=0`, never build all test targets at once (`cargo test --tests` / `--no-run` for everything is forbidden) - run `cargo test --offline --lib` and then individual integration tests by name (`--test <name>`) for the 4-8 test files most related to your change. Do NOT use `git stash` (the stash is shared between worktrees): to test without your change, save it with `git diff -- src > {wt}-my.diff`, revert with `git apply -R`, and re-apply with `git apply`.

The property the project is supposed to satisfy:

  Title: {p['title']}
  Statement: {p['statement']}
  Quantifier: {p['quantifier']['text']}
  Why existing tests cannot settle it: {p['why_tests_cant']}
  Relevant files: {', '.join(p['anchors']['files'])}

Your task: make ONE realistic change to the project's source (under src/) that BREAKS this property, such that
  1. the project still compiles (`cargo build --offline --lib` and the test targets),
  2. the existing test suite still passes (at minimum run `cargo test --offline --lib` plus the integration tests under tests/ that touch the area you changed; do not edit or delete any existing test),
  3. the breakage needs something specific to manifest — a particular interleaving, a crash or fault at a particular point, a multi-step sequence of operations, an unusual input, or two cooperating sites that each look fine alone — NOT something ordinary use would expose at once,
  4. it looks like a plausible developer mistake or "optimisation"/refactor (e.g. a dropped step, a reordered pair of operations, a wrong branch classification, a narrowed lock scope, a check moved, an off-by-one in an index remap, a comparison changed), not sabotage with random noise. Keep it small (typically 1-30 changed lines).

Then write a demonstration: a new integration test file `tests/zz_seeded_{pid.lower()}{variant}.rs` (or a small program) that FAILS with your change and PASSES on the unchanged code (verify both: revert your src change with `git apply -R`, run the demo, re-apply it, run again). The demonstration may construct the specific situation directly (e.g. build the post-crash on-disk state by hand, call internal-but-public APIs, use several threads with barriers).

Deliverables, in a new directory {wt}-out/ :
  - patch.diff : `git diff -- src` of your source change only (must apply with `git apply` to a clean checkout of the same commit),
  - the demonstration file (copy of tests/zz_seeded_{pid.lower()}{variant}.rs),
  - notes.md : which clause of the property breaks, what exactly is needed for it to manifest, the commands you ran and their outcomes (existing tests passing with the change; demo failing with / passing without).

Be economical: read the relevant files first, pick one idea, implement, verify. If an idea turns out to be caught by existing tests, pick another. Report back a short summary (what you changed, file:line, how it manifests) when done.""")
