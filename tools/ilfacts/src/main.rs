// ilfacts: rustc_private fact extractor for the inputlayer static checks.
//
// Injected as RUSTC_WORKSPACE_WRAPPER under `cargo +nightly check --lib`.
// For the crate named by ILFACTS_CRATE (default "inputlayer") it dumps, after
// analysis, one JSON line per MIR body (drop-elaborated MIR, i.e. before the
// coroutine state transform, so `async fn` bodies keep their locals and
// dominance structure), plus ADT and trait-impl tables. Nothing is executed.
//
// Output: $ILFACTS_OUT/bodies.jsonl, $ILFACTS_OUT/meta.json (one write per process).
#![feature(rustc_private)]
#![allow(clippy::all)]

extern crate rustc_abi;
extern crate rustc_data_structures;
extern crate rustc_driver;
extern crate rustc_hir;
extern crate rustc_index;
extern crate rustc_interface;
extern crate rustc_middle;
extern crate rustc_session;
extern crate rustc_span;

use rustc_hir::def::DefKind;
use rustc_hir::def_id::{DefId, LOCAL_CRATE};
use rustc_middle::mir::{
    AggregateKind, BasicBlock, Body, BorrowKind, Const, Operand, Place, ProjectionElem, Rvalue,
    StatementKind, TerminatorKind, UnwindAction,
};
use rustc_middle::ty::{self, Instance, Ty, TyCtxt, TypingEnv};
use rustc_span::Span;
use std::fmt::Write as _;

fn esc(s: &str) -> String {
    let mut o = String::with_capacity(s.len() + 2);
    o.push('"');
    for c in s.chars() {
        match c {
            '"' => o.push_str("\\\""),
            '\\' => o.push_str("\\\\"),
            '\n' => o.push_str("\\n"),
            '\r' => o.push_str("\\r"),
            '\t' => o.push_str("\\t"),
            c if (c as u32) < 0x20 => {
                let _ = write!(o, "\\u{:04x}", c as u32);
            }
            c => o.push(c),
        }
    }
    o.push('"');
    o
}

struct Cx<'tcx> {
    tcx: TyCtxt<'tcx>,
}

impl<'tcx> Cx<'tcx> {
    fn loc(&self, sp: Span) -> (String, usize, bool) {
        let exp = sp.from_expansion();
        let sp = sp.source_callsite();
        let sm = self.tcx.sess.source_map();
        let p = sm.lookup_char_pos(sp.lo());
        let f = match &p.file.name {
            rustc_span::FileName::Real(r) => match r.local_path() {
                Some(p) => p.to_string_lossy().to_string(),
                None => format!("{:?}", r),
            },
            o => format!("{:?}", o),
        };
        (f, p.line, exp)
    }

    fn line(&self, sp: Span) -> usize {
        self.loc(sp).1
    }

    fn tystr(&self, t: Ty<'tcx>) -> String {
        format!("{}", t)
    }

    fn adt_name(&self, t: Ty<'tcx>) -> Option<(String, DefId)> {
        match t.kind() {
            ty::Adt(def, _) => Some((self.tcx.def_path_str(def.did()), def.did())),
            _ => None,
        }
    }

    fn place(&self, body: &Body<'tcx>, p: &Place<'tcx>) -> String {
        let mut s = String::new();
        let _ = write!(s, "{{\"l\":{}", p.local.as_usize());
        if !p.projection.is_empty() {
            s.push_str(",\"p\":[");
            let mut cur = rustc_middle::mir::PlaceTy::from_ty(body.local_decls[p.local].ty);
            let mut first = true;
            for elem in p.projection.iter() {
                if !first {
                    s.push(',');
                }
                first = false;
                match elem {
                    ProjectionElem::Deref => s.push_str("\"*\""),
                    ProjectionElem::Field(f, _) => {
                        let mut name = format!("{}", f.as_usize());
                        let mut adt = String::new();
                        match cur.ty.kind() {
                            ty::Adt(def, _) => {
                                adt = self.tcx.def_path_str(def.did());
                                let v = match cur.variant_index {
                                    Some(v) => Some(v),
                                    None => {
                                        if def.is_enum() {
                                            None
                                        } else {
                                            Some(rustc_abi::FIRST_VARIANT)
                                        }
                                    }
                                };
                                if let Some(v) = v {
                                    if let Some(fd) = def.variant(v).fields.get(f) {
                                        name = fd.name.to_string();
                                    }
                                }
                            }
                            ty::Closure(..) | ty::Coroutine(..) | ty::CoroutineClosure(..) => {
                                adt = "{upvar}".to_string();
                            }
                            _ => {}
                        }
                        let _ = write!(s, "{{\"f\":{},\"a\":{}}}", esc(&name), esc(&adt));
                    }
                    ProjectionElem::Downcast(name, v) => {
                        let n = match name {
                            Some(n) => n.to_string(),
                            None => format!("{}", v.as_usize()),
                        };
                        let _ = write!(s, "{{\"v\":{}}}", esc(&n));
                    }
                    ProjectionElem::Index(l) => {
                        let _ = write!(s, "{{\"i\":{}}}", l.as_usize());
                    }
                    ProjectionElem::ConstantIndex { offset, .. } => {
                        let _ = write!(s, "{{\"ci\":{}}}", offset);
                    }
                    ProjectionElem::Subslice { .. } => s.push_str("\"sub\""),
                    _ => s.push_str("\"?\""),
                }
                cur = cur.projection_ty(self.tcx, elem);
            }
            s.push(']');
        }
        s.push('}');
        s
    }

    fn fn_ref(&self, owner: DefId, fty: Ty<'tcx>) -> Option<String> {
        if let ty::FnDef(did, args) = fty.kind() {
            let tcx = self.tcx;
            let stat = tcx.def_path_str(*did);
            let stat_args = tcx.def_path_str_with_args(*did, args);
            let mut s = String::new();
            let _ = write!(s, "{{\"d\":{},\"da\":{}", esc(&stat), esc(&stat_args));
            // resolve
            let env = TypingEnv::post_analysis(tcx, owner);
            let res = std::panic::catch_unwind(std::panic::AssertUnwindSafe(|| {
                Instance::try_resolve(tcx, env, *did, args)
            }));
            if let Ok(Ok(Some(inst))) = res {
                let rd = inst.def_id();
                let rs = tcx.def_path_str(rd);
                let virt = matches!(inst.def, ty::InstanceKind::Virtual(..));
                let _ = write!(s, ",\"r\":{}", esc(&rs));
                if virt {
                    s.push_str(",\"virt\":1");
                }
                if rd.is_local() {
                    s.push_str(",\"loc\":1");
                }
                let ra = tcx.def_path_str_with_args(rd, inst.args);
                if ra != stat_args {
                    let _ = write!(s, ",\"ra\":{}", esc(&ra));
                }
            } else if did.is_local() {
                s.push_str(",\"loc\":1");
            }
            // trait of the static callee, if a trait method
            if let Some(tr) = tcx.trait_of_assoc(*did) {
                let _ = write!(s, ",\"tr\":{}", esc(&tcx.def_path_str(tr)));
            }
            s.push('}');
            Some(s)
        } else {
            None
        }
    }

    fn operand(&self, owner: DefId, body: &Body<'tcx>, o: &Operand<'tcx>) -> String {
        match o {
            Operand::Copy(p) => format!("{{\"c\":{}}}", self.place(body, p)),
            Operand::Move(p) => format!("{{\"m\":{}}}", self.place(body, p)),
            Operand::Constant(c) => {
                let ty = c.const_.ty();
                let mut s = String::from("{\"k\":");
                let _ = write!(s, "{}", esc(&self.tystr(ty)));
                if let ty::FnDef(..) = ty.kind() {
                    if let Some(f) = self.fn_ref(owner, ty) {
                        let _ = write!(s, ",\"fn\":{}", f);
                    }
                } else if let ty::Closure(did, _) = ty.kind() {
                    let _ = write!(s, ",\"clo\":{}", esc(&self.tcx.def_path_str(*did)));
                } else {
                    let env = TypingEnv::post_analysis(self.tcx, owner);
                    let v = std::panic::catch_unwind(std::panic::AssertUnwindSafe(|| {
                        match c.const_ {
                            Const::Val(..) | Const::Ty(..) | Const::Unevaluated(..) => {
                                c.const_.try_eval_scalar_int(self.tcx, env)
                            }
                        }
                    }));
                    if let Ok(Some(si)) = v {
                        if ty.is_integral() || ty.is_bool() || ty.is_char() {
                            let bits = si.to_bits_unchecked();
                            let _ = write!(s, ",\"v\":{}", esc(&format!("{}", bits)));
                        } else if ty.is_floating_point() {
                            let bits = si.to_bits_unchecked();
                            let _ = write!(s, ",\"fbits\":{}", esc(&format!("{}", bits)));
                        }
                    }
                    // string / other constants: pretty text
                    let txt = format!("{}", c.const_);
                    if txt.len() < 200 {
                        let _ = write!(s, ",\"t\":{}", esc(&txt));
                    }
                }
                s.push('}');
                s
            }
            _ => "{\"rt\":1}".to_string(),
        }
    }

    fn rvalue(&self, owner: DefId, body: &Body<'tcx>, rv: &Rvalue<'tcx>) -> String {
        let op = |o: &Operand<'tcx>| self.operand(owner, body, o);
        match rv {
            Rvalue::Use(o, ..) => format!("{{\"k\":\"use\",\"o\":{}}}", op(o)),
            Rvalue::Repeat(o, _) => format!("{{\"k\":\"repeat\",\"o\":{}}}", op(o)),
            Rvalue::Ref(_, bk, p) => {
                let m = match bk {
                    BorrowKind::Mut { .. } => 1,
                    _ => 0,
                };
                format!("{{\"k\":\"ref\",\"mut\":{},\"p\":{}}}", m, self.place(body, p))
            }
            Rvalue::RawPtr(_, p) => format!("{{\"k\":\"rawptr\",\"p\":{}}}", self.place(body, p)),
            Rvalue::Cast(ck, o, t) => format!(
                "{{\"k\":\"cast\",\"ck\":{},\"o\":{},\"ty\":{}}}",
                esc(&format!("{:?}", ck)),
                op(o),
                esc(&self.tystr(*t))
            ),
            Rvalue::BinaryOp(b, ops) => format!(
                "{{\"k\":\"bin\",\"op\":{},\"a\":{},\"b\":{},\"aty\":{}}}",
                esc(&format!("{:?}", b)),
                op(&ops.0),
                op(&ops.1),
                esc(&self.tystr(ops.0.ty(body, self.tcx)))
            ),
            Rvalue::UnaryOp(u, o) => format!(
                "{{\"k\":\"un\",\"op\":{},\"o\":{},\"oty\":{}}}",
                esc(&format!("{:?}", u)),
                op(o),
                esc(&self.tystr(o.ty(body, self.tcx)))
            ),
            Rvalue::Discriminant(p) => {
                let pty = p.ty(body, self.tcx).ty;
                let mut s = format!(
                    "{{\"k\":\"discr\",\"p\":{},\"ty\":{}",
                    self.place(body, p),
                    esc(&self.tystr(pty))
                );
                if let ty::Adt(def, _) = pty.kind() {
                    if def.is_enum() {
                        let _ = write!(s, ",\"adt\":{},\"vs\":{{", esc(&self.tcx.def_path_str(def.did())));
                        let mut first = true;
                        for (vi, d) in def.discriminants(self.tcx) {
                            if !first {
                                s.push(',');
                            }
                            first = false;
                            let _ = write!(s, "\"{}\":{}", d.val, esc(def.variant(vi).name.as_str()));
                        }
                        s.push_str("}");
                    }
                }
                s.push('}');
                s
            }
            Rvalue::Aggregate(kind, ops) => {
                let mut s = String::from("{\"k\":\"agg\",");
                match &**kind {
                    AggregateKind::Array(_) => s.push_str("\"ak\":\"array\""),
                    AggregateKind::Tuple => s.push_str("\"ak\":\"tuple\""),
                    AggregateKind::Adt(did, vi, _, _, _) => {
                        let def = self.tcx.adt_def(*did);
                        let _ = write!(
                            s,
                            "\"ak\":\"adt\",\"adt\":{},\"var\":{}",
                            esc(&self.tcx.def_path_str(*did)),
                            esc(def.variant(*vi).name.as_str())
                        );
                        s.push_str(",\"fields\":[");
                        let mut first = true;
                        for fd in def.variant(*vi).fields.iter() {
                            if !first {
                                s.push(',');
                            }
                            first = false;
                            s.push_str(&esc(fd.name.as_str()));
                        }
                        s.push(']');
                    }
                    AggregateKind::Closure(did, _) => {
                        let _ = write!(s, "\"ak\":\"closure\",\"def\":{}", esc(&self.tcx.def_path_str(*did)));
                    }
                    AggregateKind::Coroutine(did, _) => {
                        let _ = write!(s, "\"ak\":\"coroutine\",\"def\":{}", esc(&self.tcx.def_path_str(*did)));
                    }
                    AggregateKind::CoroutineClosure(did, _) => {
                        let _ = write!(s, "\"ak\":\"coroutine_closure\",\"def\":{}", esc(&self.tcx.def_path_str(*did)));
                    }
                    AggregateKind::RawPtr(..) => s.push_str("\"ak\":\"rawptr\""),
                }
                s.push_str(",\"ops\":[");
                let mut first = true;
                for o in ops.iter() {
                    if !first {
                        s.push(',');
                    }
                    first = false;
                    s.push_str(&op(o));
                }
                s.push_str("]}");
                s
            }
            Rvalue::CopyForDeref(p) => format!("{{\"k\":\"use\",\"o\":{{\"c\":{}}}}}", self.place(body, p)),
            Rvalue::ThreadLocalRef(d) => format!("{{\"k\":\"tls\",\"def\":{}}}", esc(&self.tcx.def_path_str(*d))),
            _ => "{\"k\":\"other\"}".to_string(),
        }
    }

    fn unwind(&self, u: &UnwindAction) -> String {
        match u {
            UnwindAction::Cleanup(bb) => format!("{}", bb.as_usize()),
            _ => "null".to_string(),
        }
    }

    fn body(&self, did: DefId, body: &Body<'tcx>, stage: &str, out: &mut String) {
        let tcx = self.tcx;
        let path = tcx.def_path_str(did);
        let (file, line, _) = self.loc(body.span);
        let sm = tcx.sess.source_map();
        let end_line = sm.lookup_char_pos(body.span.source_callsite().hi()).line;
        let kind = tcx.def_kind(did);
        let _ = write!(
            out,
            "{{\"fn\":{},\"kind\":{},\"file\":{},\"line\":{},\"end\":{},\"stage\":{}",
            esc(&path),
            esc(&format!("{:?}", kind)),
            esc(&file),
            line,
            end_line,
            esc(stage)
        );
        // parent (for closures: the enclosing fn-like item)
        let tr = tcx.typeck_root_def_id(did);
        if tr != did {
            let _ = write!(out, ",\"root\":{}", esc(&tcx.def_path_str(tr)));
        }
        if matches!(kind, DefKind::Fn | DefKind::AssocFn) {
            let vis = tcx.visibility(did);
            let v = if vis.is_public() { "pub".to_string() } else { format!("{:?}", vis) };
            let _ = write!(out, ",\"vis\":{}", esc(&v));
            if tcx.asyncness(did).is_async() {
                out.push_str(",\"async\":1");
            }
            if let Some(imp) = tcx.impl_of_assoc(did) {
                let self_ty = tcx.type_of(imp).instantiate_identity().skip_norm_wip();
                let _ = write!(out, ",\"self_ty\":{}", esc(&self.tystr(self_ty)));
                if let Some(trd) = tcx.impl_opt_trait_id(imp) {
                    let _ = write!(out, ",\"impl_trait\":{}", esc(&tcx.def_path_str(trd)));
                }
            }
        }
        let _ = write!(out, ",\"argc\":{}", body.arg_count);
        // locals
        out.push_str(",\"locals\":[");
        for (i, d) in body.local_decls.iter().enumerate() {
            if i > 0 {
                out.push(',');
            }
            out.push_str(&esc(&self.tystr(d.ty)));
        }
        out.push(']');
        // debug names
        out.push_str(",\"names\":{");
        let mut first = true;
        for vdi in body.var_debug_info.iter() {
            if let rustc_middle::mir::VarDebugInfoContents::Place(p) = &vdi.value {
                if !first {
                    out.push(',');
                }
                first = false;
                let _ = write!(out, "{}:{}", esc(vdi.name.as_str()), self.place(body, p));
            }
        }
        out.push('}');
        // blocks
        out.push_str(",\"bb\":[");
        for (bi, bb) in body.basic_blocks.iter().enumerate() {
            if bi > 0 {
                out.push(',');
            }
            out.push_str("{\"s\":[");
            let mut first = true;
            for st in bb.statements.iter() {
                match &st.kind {
                    StatementKind::Assign(b) => {
                        if !first {
                            out.push(',');
                        }
                        first = false;
                        let (p, rv) = &**b;
                        let _ = write!(
                            out,
                            "{{\"d\":{},\"r\":{},\"ln\":{}}}",
                            self.place(body, p),
                            self.rvalue(did, body, rv),
                            self.line(st.source_info.span)
                        );
                    }
                    StatementKind::SetDiscriminant { place, variant_index } => {
                        if !first {
                            out.push(',');
                        }
                        first = false;
                        let _ = write!(
                            out,
                            "{{\"d\":{},\"r\":{{\"k\":\"setdiscr\",\"var\":{}}},\"ln\":{}}}",
                            self.place(body, place),
                            variant_index.as_usize(),
                            self.line(st.source_info.span)
                        );
                    }
                    _ => {}
                }
            }
            out.push_str("],\"t\":");
            let term = bb.terminator();
            let (_, tline, texp) = self.loc(term.source_info.span);
            let bbn = |b: &BasicBlock| b.as_usize();
            match &term.kind {
                TerminatorKind::Goto { target } => {
                    let _ = write!(out, "{{\"k\":\"goto\",\"to\":{}", bbn(target));
                }
                TerminatorKind::SwitchInt { discr, targets } => {
                    let _ = write!(out, "{{\"k\":\"switch\",\"on\":{},\"tg\":[", self.operand(did, body, discr));
                    let mut f = true;
                    for (v, t) in targets.iter() {
                        if !f {
                            out.push(',');
                        }
                        f = false;
                        let _ = write!(out, "[\"{}\",{}]", v, bbn(&t));
                    }
                    let _ = write!(out, "],\"else\":{}", bbn(&targets.otherwise()));
                }
                TerminatorKind::Return => out.push_str("{\"k\":\"return\""),
                TerminatorKind::Unreachable => out.push_str("{\"k\":\"unreachable\""),
                TerminatorKind::UnwindResume => out.push_str("{\"k\":\"resume\""),
                TerminatorKind::UnwindTerminate(_) => out.push_str("{\"k\":\"abort\""),
                TerminatorKind::Drop { place, target, unwind, .. } => {
                    let _ = write!(
                        out,
                        "{{\"k\":\"drop\",\"p\":{},\"to\":{},\"uw\":{}",
                        self.place(body, place),
                        bbn(target),
                        self.unwind(unwind)
                    );
                }
                TerminatorKind::Call { func, args, destination, target, unwind, fn_span, .. } => {
                    out.push_str("{\"k\":\"call\"");
                    let fty = func.ty(body, tcx);
                    match self.fn_ref(did, fty) {
                        Some(f) => {
                            let _ = write!(out, ",\"f\":{}", f);
                        }
                        None => {
                            let _ = write!(
                                out,
                                ",\"ind\":{},\"fty\":{}",
                                self.operand(did, body, func),
                                esc(&self.tystr(fty))
                            );
                        }
                    }
                    out.push_str(",\"args\":[");
                    let mut f = true;
                    for a in args.iter() {
                        if !f {
                            out.push(',');
                        }
                        f = false;
                        out.push_str(&self.operand(did, body, &a.node));
                    }
                    let _ = write!(out, "],\"dst\":{}", self.place(body, destination));
                    match target {
                        Some(t) => {
                            let _ = write!(out, ",\"to\":{}", bbn(t));
                        }
                        None => out.push_str(",\"to\":null"),
                    }
                    let _ = write!(out, ",\"uw\":{},\"fl\":{}", self.unwind(unwind), self.line(*fn_span));
                }
                TerminatorKind::TailCall { .. } => out.push_str("{\"k\":\"tailcall\""),
                TerminatorKind::Assert { target, unwind, .. } => {
                    let _ = write!(out, "{{\"k\":\"assert\",\"to\":{},\"uw\":{}", bbn(target), self.unwind(unwind));
                }
                TerminatorKind::Yield { resume, drop, .. } => {
                    let _ = write!(out, "{{\"k\":\"yield\",\"to\":{}", bbn(resume));
                    if let Some(d) = drop {
                        let _ = write!(out, ",\"drop\":{}", bbn(d));
                    }
                }
                TerminatorKind::CoroutineDrop => out.push_str("{\"k\":\"cordrop\""),
                TerminatorKind::FalseEdge { real_target, .. } => {
                    let _ = write!(out, "{{\"k\":\"goto\",\"to\":{}", bbn(real_target));
                }
                TerminatorKind::FalseUnwind { real_target, .. } => {
                    let _ = write!(out, "{{\"k\":\"goto\",\"to\":{}", bbn(real_target));
                }
                TerminatorKind::InlineAsm { .. } => out.push_str("{\"k\":\"asm\""),
            }
            let _ = write!(out, ",\"ln\":{}", tline);
            if texp {
                out.push_str(",\"x\":1");
            }
            out.push('}');
            if bb.is_cleanup {
                out.push_str(",\"cu\":1");
            }
            out.push('}');
        }
        out.push(']');
        // promoted constants: the constant operands each promoted body mentions
        // (e.g. `&INTERNAL_KG` is promoted; its value is only visible here)
        let prom = std::panic::catch_unwind(std::panic::AssertUnwindSafe(|| tcx.promoted_mir(did)));
        if let Ok(prom) = prom {
            if !prom.is_empty() {
                out.push_str(",\"promoted\":[");
                for (pi, pb) in prom.iter().enumerate() {
                    if pi > 0 {
                        out.push(',');
                    }
                    out.push('[');
                    let mut first = true;
                    let mut add = |c: &rustc_middle::mir::ConstOperand<'tcx>, out: &mut String| {
                        let mut txt = format!("{}", c.const_);
                        let env = TypingEnv::post_analysis(tcx, did);
                        if let Const::Unevaluated(..) = c.const_ {
                            if let Ok(v) = c.const_.eval(tcx, env, c.span) {
                                let cv = Const::Val(v, c.const_.ty());
                                let _ = write!(txt, " = {}", cv);
                            }
                        }
                        if txt.len() < 300 {
                            if !first {
                                out.push(',');
                            }
                            first = false;
                            out.push_str(&esc(&txt));
                        }
                    };
                    for bb in pb.basic_blocks.iter() {
                        for st in bb.statements.iter() {
                            if let StatementKind::Assign(b) = &st.kind {
                                let (_, rv) = &**b;
                                match rv {
                                    Rvalue::Use(Operand::Constant(c), ..) => add(c, out),
                                    Rvalue::Aggregate(_, ops) => {
                                        for o in ops.iter() {
                                            if let Operand::Constant(c) = o {
                                                add(c, out);
                                            }
                                        }
                                    }
                                    Rvalue::Cast(_, Operand::Constant(c), _) => add(c, out),
                                    _ => {}
                                }
                            }
                        }
                    }
                    out.push(']');
                }
                out.push(']');
            }
        }
        out.push_str("}\n");
    }
}

struct Cb;

// Coroutine (async fn) bodies: the coroutine state transform now runs inside
// `mir_drops_elaborated_and_const_checked`, which would leave us with a state
// machine (locals turned into fields, a resume switch at entry that destroys
// dominance). For coroutines we therefore serialise the `mir_promoted` body
// (pre-borrowck, pre-transform: `Yield` terminators, ordinary locals) inside an
// overriding provider, right after the default provider has produced it.
type Promoted<'tcx> = (
    &'tcx rustc_data_structures::steal::Steal<Body<'tcx>>,
    &'tcx rustc_data_structures::steal::Steal<
        rustc_index::IndexVec<rustc_middle::mir::Promoted, Body<'tcx>>,
    >,
);
static ORIG_PROMOTED: std::sync::OnceLock<
    for<'tcx> fn(TyCtxt<'tcx>, rustc_hir::def_id::LocalDefId) -> Promoted<'tcx>,
> = std::sync::OnceLock::new();
// (def index, address of an arena-allocated clone of the pre-transform body).
// Serialisation (which resolves callees and would re-enter borrowck/type_of
// queries of the function being built -> query cycle) is deferred to after_analysis.
static EARLY: std::sync::Mutex<Vec<(u32, usize)>> = std::sync::Mutex::new(Vec::new());

fn promoted_override<'tcx>(tcx: TyCtxt<'tcx>, def: rustc_hir::def_id::LocalDefId) -> Promoted<'tcx> {
    let r = (ORIG_PROMOTED.get().expect("orig provider"))(tcx, def);
    let want = std::env::var("ILFACTS_CRATE").unwrap_or_else(|_| "inputlayer".to_string());
    if tcx.crate_name(LOCAL_CRATE).as_str() == want
        && std::env::var("ILFACTS_OUT").is_ok()
        && tcx.is_coroutine(def.to_def_id())
        && !r.0.is_stolen()
    {
        let b: Body<'tcx> = r.0.borrow().clone();
        let stored: &'tcx Body<'tcx> = tcx.arena.alloc(b);
        EARLY
            .lock()
            .unwrap()
            .push((def.local_def_index.as_u32(), stored as *const Body<'tcx> as usize));
    }
    r
}

impl rustc_driver::Callbacks for Cb {
    fn config(&mut self, config: &mut rustc_interface::interface::Config) {
        config.override_queries = Some(|_sess, providers| {
            let _ = ORIG_PROMOTED.set(providers.queries.mir_promoted);
            providers.queries.mir_promoted = promoted_override;
        });
    }

    fn after_analysis<'tcx>(
        &mut self,
        _c: &rustc_interface::interface::Compiler,
        tcx: TyCtxt<'tcx>,
    ) -> rustc_driver::Compilation {
        let want = std::env::var("ILFACTS_CRATE").unwrap_or_else(|_| "inputlayer".to_string());
        let name = tcx.crate_name(LOCAL_CRATE).to_string();
        if name != want {
            return rustc_driver::Compilation::Continue;
        }
        // Only library crate type (skip bins that happen to share the name).
        let outdir = match std::env::var("ILFACTS_OUT") {
            Ok(o) => o,
            Err(_) => return rustc_driver::Compilation::Continue,
        };
        let cx = Cx { tcx };
        let mut out = String::with_capacity(64 << 20);
        let mut nbodies = 0usize;
        let mut stolen = 0usize;
        for ldid in tcx.mir_keys(()).iter() {
            let did = ldid.to_def_id();
            let kind = tcx.def_kind(did);
            match kind {
                DefKind::Fn | DefKind::AssocFn | DefKind::Closure => {}
                _ => continue,
            }
            // constructors of tuple structs etc. have no hir body
            if tcx.hir_maybe_body_owned_by(*ldid).is_none() {
                continue;
            }
            if tcx.is_coroutine(did) {
                let key = ldid.local_def_index.as_u32();
                let addr = EARLY.lock().unwrap().iter().find(|(k, _)| *k == key).map(|x| x.1);
                if let Some(addr) = addr {
                    // SAFETY: the clone was allocated in this tcx's arena during this session
                    let b: &Body<'tcx> = unsafe { &*(addr as *const Body<'tcx>) };
                    cx.body(did, b, "promoted", &mut out);
                    nbodies += 1;
                    continue;
                }
            }
            let st = tcx.mir_drops_elaborated_and_const_checked(*ldid);
            if st.is_stolen() {
                stolen += 1;
                let b = tcx.optimized_mir(did);
                cx.body(did, b, "opt", &mut out);
            } else {
                let b = st.borrow();
                cx.body(did, &b, "elab", &mut out);
            }
            nbodies += 1;
        }
        // ADT table
        let mut meta = String::from("{\"adts\":{");
        let mut first = true;
        for ldid in tcx.hir_crate_items(()).definitions() {
            let did = ldid.to_def_id();
            match tcx.def_kind(did) {
                DefKind::Struct | DefKind::Enum => {}
                _ => continue,
            }
            let def = tcx.adt_def(did);
            if !first {
                meta.push(',');
            }
            first = false;
            let (file, line, _) = cx.loc(tcx.def_span(did));
            let _ = write!(
                meta,
                "{}:{{\"enum\":{},\"file\":{},\"line\":{},\"variants\":[",
                esc(&tcx.def_path_str(did)),
                def.is_enum(),
                esc(&file),
                line
            );
            let mut fv = true;
            for v in def.variants().iter() {
                if !fv {
                    meta.push(',');
                }
                fv = false;
                let _ = write!(meta, "{{\"name\":{},\"fields\":[", esc(v.name.as_str()));
                let mut ff = true;
                for fd in v.fields.iter() {
                    if !ff {
                        meta.push(',');
                    }
                    ff = false;
                    let fty = tcx.type_of(fd.did).instantiate_identity().skip_norm_wip();
                    let vis = if fd.vis.is_public() { "pub".to_string() } else { format!("{:?}", fd.vis) };
                    let _ = write!(
                        meta,
                        "{{\"name\":{},\"ty\":{},\"vis\":{}}}",
                        esc(fd.name.as_str()),
                        esc(&cx.tystr(fty)),
                        esc(&vis)
                    );
                }
                meta.push_str("]}");
            }
            meta.push_str("]}");
        }
        meta.push_str("},\"impls\":[");
        // trait impls in the crate (for class-hierarchy expansion of dyn calls)
        let mut first = true;
        for ldid in tcx.hir_crate_items(()).definitions() {
            let did = ldid.to_def_id();
            if !matches!(tcx.def_kind(did), DefKind::Impl { of_trait: true }) {
                continue;
            }
            let trd = match tcx.impl_opt_trait_id(did) {
                Some(t) => t,
                None => continue,
            };
            let self_ty = tcx.type_of(did).instantiate_identity().skip_norm_wip();
            if !first {
                meta.push(',');
            }
            first = false;
            let _ = write!(
                meta,
                "{{\"trait\":{},\"self\":{},\"methods\":{{",
                esc(&tcx.def_path_str(trd)),
                esc(&cx.tystr(self_ty))
            );
            let mut fm = true;
            for item in tcx.associated_items(did).in_definition_order() {
                if !item.is_fn() {
                    continue;
                }
                if let Some(tid) = item.trait_item_def_id() {
                    if !fm {
                        meta.push(',');
                    }
                    fm = false;
                    let _ = write!(meta, "{}:{}", esc(&tcx.def_path_str(tid)), esc(&tcx.def_path_str(item.def_id)));
                }
            }
            meta.push_str("}}");
        }
        let _ = write!(meta, "],\"bodies\":{},\"stolen\":{},\"crate\":{}}}\n", nbodies, stolen, esc(&name));
        let _ = std::fs::create_dir_all(&outdir);
        std::fs::write(format!("{}/bodies.jsonl", outdir), out).expect("write bodies");
        std::fs::write(format!("{}/meta.json", outdir), meta).expect("write meta");
        rustc_driver::Compilation::Continue
    }
}

fn main() {
    let mut args: Vec<String> = std::env::args().collect();
    // RUSTC_WORKSPACE_WRAPPER: argv[1] is the real rustc path
    if args.len() > 1 && (args[1].ends_with("rustc") || args[1].contains("/rustc")) {
        args.remove(1);
    }
    rustc_driver::run_compiler(&args, &mut Cb);
}
