#!/usr/bin/env python3
"""Regenerates the as-built rule index (DESIGN.md §3) and the seeded-change table (§7) from the evidence files and seeded/*/meta.json.
Usage: gen_design_index.py rules|seeds"""
import json, glob, os, sys
V = os.path.dirname(os.path.dirname(os.path.abspath(__file__)))
what = sys.argv[1]
out = []
if what == "rules":
    for f in sorted(glob.glob(V + '/evidence/C*.json')):
        e = json.load(open(f)); c = e['coverage']
        out.append("### %s  (level: %s)\n" % (e['property_id'], e['level']))
        out.append(c['explanation'] + "\n")
        out.append("| rule | requires | sites today | floor |\n|---|---|---|---|")
        for s in c['samples']:
            out.append("| %s | %s | %d | %s |" % (s['rule'], s['desc'].replace("|", "/"), s['sites'], s['floor']))
        if c.get('exemptions'):
            out.append("\nExemptions (one named symbol each, with its reason):")
            for x in c['exemptions'][:12]:
                out.append("- " + (x if isinstance(x, str) else "%s — %s" % (x.get("what", x.get("item", "")), x.get("why", x.get("reason", ""))))[:500])
        if c.get('angelic_guards_used'):
            out.append("\nAngelic guards used today: %d (listed with source line in the evidence file)." % len(c['angelic_guards_used']))
        if c.get('known_findings_matched'):
            out.append("\nKnown findings matched today: " + ", ".join("`%s`" % k for k in c['known_findings_matched']))
        if c.get('observations'):
            out.append("\nObservations (not armed): see evidence `observations`.")
        out.append("")
else:
    out.append("| change (`seeded/<dir>`) | prop. | what it breaks | caught before any strengthening | caught by (today) |\n|---|---|---|---|---|")
    for d in sorted(glob.glob(V + '/seeded/*/')):
        m = json.load(open(d + 'meta.json'))
        out.append("| `%s` | %s | %s | %s | %s |" % (os.path.basename(d[:-1]), m['property'], m['breaks'].replace("|", "/"), "yes" if m.get('caught_before_strengthening') else "no", m['caught_by'].replace("|", "/")))
print("\n".join(out))
