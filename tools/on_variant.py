#!/usr/bin/env python3
"""Run checks against a scratch copy of the repository with a patch applied
(or a commit reverted). Analysis of variant *source*; nothing is executed.

  on_variant.py [--base COMMIT] [--patch FILE]... [--revert COMMIT]... [--reverse-patch FILE] PROP [PROP...]

--base COMMIT starts from that commit of /repo (git archive) instead of the current working tree.

The scratch copy lives under $(mktemp -d) outside /repo and /verif and is removed
afterwards, together with the evidence the runs wrote.
Exit status: 0 if every listed property check exited 0, else 1. Prints one line per property.
"""
import os, shutil, subprocess, sys, tempfile

VERIF = os.path.dirname(os.path.dirname(os.path.abspath(__file__)))
REPO = os.environ.get("ILCHECK_REPO", "/repo")


def main():
    args = sys.argv[1:]
    patches, reverts, rpatches, props = [], [], [], []
    base = None
    i = 0
    while i < len(args):
        if args[i] == "--patch":
            patches.append(os.path.abspath(args[i + 1])); i += 2
        elif args[i] == "--reverse-patch":
            rpatches.append(os.path.abspath(args[i + 1])); i += 2
        elif args[i] == "--base":
            base = args[i + 1]; i += 2
        elif args[i] == "--revert":
            reverts.append(args[i + 1]); i += 2
        else:
            props.append(args[i]); i += 1
    tmp = tempfile.mkdtemp(prefix="ilvar-")
    scratch = os.path.join(tmp, "repo")
    ev = os.path.join(tmp, "evidence")
    rc_all = 0
    try:
        os.makedirs(scratch)
        if base:
            ar = subprocess.Popen(["git", "-C", "/repo", "archive", base], stdout=subprocess.PIPE)
            subprocess.check_call(["tar", "-x", "-C", scratch, "--exclude=gui", "--exclude=front", "--exclude=content", "--exclude=demo", "--exclude=packages"], stdin=ar.stdout)
            ar.wait()
            if not os.path.exists(os.path.join(scratch, "Cargo.lock")):
                shutil.copy("/repo/Cargo.lock", os.path.join(scratch, "Cargo.lock"))
        else:
            subprocess.check_call(["rsync", "-a", "--exclude", "target", "--exclude", ".git", "--exclude", "gui", "--exclude", "front",
                                   "--exclude", "content", "--exclude", "demo", "--exclude", "packages",
                                   REPO + "/", scratch + "/"])
        for c in reverts:
            d = subprocess.check_output(["git", "-C", "/repo", "show", "--format=", c, "--", "src"])
            if subprocess.run(["patch", "-R", "-p1", "-s", "-f", "--dry-run", "-d", scratch], input=d, stdout=subprocess.DEVNULL, stderr=subprocess.DEVNULL).returncode != 0:
                print("PATCH-DOES-NOT-APPLY revert %s" % c)
                return 3
            subprocess.run(["patch", "-R", "-p1", "-s", "-d", scratch], input=d, check=True)
        for p in patches:
            if subprocess.run(["patch", "-p1", "-s", "-f", "--dry-run", "-d", scratch, "-i", p], stdout=subprocess.DEVNULL, stderr=subprocess.DEVNULL).returncode != 0:
                print("PATCH-DOES-NOT-APPLY %s" % p)
                return 3
            subprocess.run(["patch", "-p1", "-s", "-d", scratch, "-i", p], check=True)
        for p in rpatches:
            if subprocess.run(["patch", "-R", "-p1", "-s", "-f", "--dry-run", "-d", scratch, "-i", p], stdout=subprocess.DEVNULL, stderr=subprocess.DEVNULL).returncode != 0:
                print("PATCH-DOES-NOT-APPLY %s" % p)
                return 3
            subprocess.run(["patch", "-R", "-p1", "-s", "-d", scratch, "-i", p], check=True)
        env = dict(os.environ)
        env["ILCHECK_REPO"] = scratch
        env["ILCHECK_EVIDENCE_DIR"] = ev
        env["ILCHECK_NO_COLD"] = "1"
        for pr in props:
            r = subprocess.run([os.path.join(VERIF, "ilcheck"), pr], env=env, stdout=subprocess.PIPE, stderr=subprocess.STDOUT, text=True)
            lines = [l for l in r.stdout.splitlines() if l.startswith(("VIOLATION", "CHECK-ERROR", "KNOWN-FINDING", "  rule="))]
            print("%s exit=%d" % (pr, r.returncode))
            for l in lines:
                print("   " + l.replace(ev, "<ev>"))
            if r.returncode != 0:
                rc_all = 1
    finally:
        shutil.rmtree(tmp, ignore_errors=True)
    return rc_all


if __name__ == "__main__":
    sys.exit(main())
