#!/bin/bash
# Rebuild DESIGN.md from its hand-written parts (design/*.md) and the generated indexes.
cd "$(dirname "$0")/.."
{ cat design/head.md; python3 tools/gen_design_index.py rules; cat design/tail.md; python3 tools/gen_design_index.py seeds; cat design/tail2.md; } > DESIGN.md
wc -l DESIGN.md
