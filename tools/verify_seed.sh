#!/bin/bash
# verify_seed.sh <seed-id> <dir with patch.diff + zz_seeded_*.rs> [base commit (default: /repo HEAD)]
# Confirms, in a scratch worktree (never in /repo): the patch applies and the baseline suite still passes with it;
# the demonstration fails with the patch and passes without it. Writes <dir>/verify.log.
set -u
ID=$1; DIR=$(realpath $2)
WT=/tmp/wt/verify
export CARGO_TARGET_DIR=/repo/target CARGO_NET_OFFLINE=true
LOG=$DIR/verify.log; : > $LOG
if [ ! -d $WT ]; then git -C /repo worktree add -q --detach $WT HEAD || exit 2; fi
cd $WT || exit 2
BASE=${3:-$(git -C /repo rev-parse HEAD)}
git checkout -q --detach $BASE 2>>$LOG; git checkout -q -- . ; rm -f tests/zz_seeded_*.rs tests/zz_verif_*.rs
echo "== base commit $(git rev-parse --short HEAD)" >> $LOG
git apply --check $DIR/patch.diff 2>>$LOG || { echo "RESULT patch-does-not-apply" >> $LOG; exit 1; }
git apply $DIR/patch.diff; sleep 1; git diff --name-only | xargs -r touch
echo "== baseline suite with the patch" >> $LOG
cargo nextest run --workspace --no-fail-fast --tool-config-file pb:/w/lib/nextest.toml --profile pb --test-threads 8 --offline > /tmp/wt/verify-suite.log 2>&1
grep -E "Summary|FAIL \[|error(\[|:)" /tmp/wt/verify-suite.log | head -20 >> $LOG
DEMO=$(ls $DIR/zz_seeded_*.rs | head -1); DN=$(basename $DEMO .rs)
cp $DEMO tests/
echo "== demo with the patch (expected: FAIL)" >> $LOG
cargo test --offline --test $DN > /tmp/wt/verify-demo1.log 2>&1; echo "exit=$?" >> $LOG; grep -E "^test result|^test .* (FAILED|ok)$" /tmp/wt/verify-demo1.log | head -12 >> $LOG
git apply -R $DIR/patch.diff
echo "== demo without the patch (expected: ok)" >> $LOG
cargo test --offline --test $DN > /tmp/wt/verify-demo2.log 2>&1; echo "exit=$?" >> $LOG; grep -E "^test result|^test .* (FAILED|ok)$" /tmp/wt/verify-demo2.log | head -12 >> $LOG
rm -f tests/$DN.rs; git checkout -q -- .
echo "RESULT done" >> $LOG
