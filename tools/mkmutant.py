#!/usr/bin/env python3
"""mkmutant.py <out.patch> <repo-relative file> <old text> <new text> [<file> <old> <new> ...]
Create a unified diff (against /repo's working tree) that replaces the first occurrence of <old> by <new>."""
import sys, os, difflib
out = sys.argv[1]
args = sys.argv[2:]
chunks = []
for i in range(0, len(args), 3):
    rel, old, new = args[i], args[i + 1], args[i + 2]
    src = open(os.path.join("/repo", rel)).read()
    if src.count(old) < 1:
        sys.exit("old text not found in %s" % rel)
    dst = src.replace(old, new, 1)
    d = difflib.unified_diff(src.splitlines(True), dst.splitlines(True), "a/" + rel, "b/" + rel)
    chunks.append("".join(d))
os.makedirs(os.path.dirname(os.path.abspath(out)), exist_ok=True)
open(out, "w").write("".join(chunks))
print("wrote", out)
