#!/usr/bin/env python3
"""Regenerate /verif/MANIFEST.json from the table below (claimed checks + not_applicable)."""
import json, os
VERIF = os.path.dirname(os.path.dirname(os.path.abspath(__file__)))

TB = "trusted base: rustc's type checking and MIR construction, the two extractors (tools/ilfacts, tools/ilsyn), the rule engine; the check decides the named structural clause (a necessary condition), not the run-time behaviour"

CLAIMED = {
    # id: (category, text, technique, design_ref)
    "C31": ("other",
            "Static decision over the finite shape of Eq/Hash/Ord for Value and Tuple: no partial/IEEE float comparison reachable (type-resolved MIR), one canonical key per variant in all three impls, Eq has no cross-kind arm, the cross-kind arms of Ord evaluated first-match over all 81 variant pairs / 729 triples form a strict total order, PartialOrd delegates to Ord. With std's orders trusted this covers all values, which no sampled test can.",
            "type-resolved forbidden-operation scan over MIR + decision-table extraction (syn) with first-match evaluation of the rank table",
            "§3 C31"),
}

NA = {
}

DEFAULT_NA = "not yet built in this round (design in DESIGN.md §3); listed here until its check exists"


def main():
    props = [json.loads(l) for l in open(os.path.join(VERIF, "properties.jsonl"))]
    # merge in per-property tables from manifest_table.json if present
    tbl = os.path.join(VERIF, "tools", "manifest_table.json")
    claimed = dict(CLAIMED)
    na = dict(NA)
    if os.path.exists(tbl):
        t = json.load(open(tbl))
        for k, v in t.get("claimed", {}).items():
            claimed[k] = tuple(v)
        na.update(t.get("na", {}))
    checks = []
    for p in props:
        pid = p["id"]
        if pid in claimed:
            cat, text, tech, ref = claimed[pid]
            checks.append({
                "property_id": pid,
                "quick_cmd": "./ilcheck %s --tier quick" % pid,
                "thorough_cmd": "./ilcheck %s --tier thorough" % pid,
                "evidence_file": "/verif/evidence/%s.json" % pid,
                "replay_cmd_template": "./ilcheck %s --replay {path}" % pid,
                "engine": "ilcheck",
                "level_claimed": {"category": cat, "text": text, "design_ref": ref},
                "level_note": TB,
                "technique": "static analysis: " + tech,
            })
    m = {
        "version": 1,
        "setup_cmd": "./setup.sh",
        "hooks": {
            "guard": "inputlayer_inputlayer_verif",
            "enable": "none needed: static analysis reads the source; no hook is compiled into inputlayer and the guard is unused",
            "baseline_off_cmd": "cd /repo && cargo nextest run --workspace --no-fail-fast --tool-config-file pb:/w/lib/nextest.toml --profile pb --test-threads 8 --offline",
            "source_commits": [],
            "add_only": True,
        },
        "engines": [
            {"name": "ilfacts", "path": "tools/ilfacts", "serves_properties": sorted(claimed), "kind_free_text": "rustc_private driver: drop-elaborated MIR (coroutine bodies pre-transform) of the library crate as JSON facts, resolved callees, ADT and trait-impl tables"},
            {"name": "ilsyn", "path": "tools/ilsyn", "serves_properties": sorted(claimed), "kind_free_text": "syn-based syntax-table extractor (match arms, patterns, macro arguments) for decision-table rules"},
            {"name": "ilcheck", "path": "ilcheck", "serves_properties": sorted(claimed), "kind_free_text": "python rule engine over the facts: call graph with CHA, dominators, success sub-CFG, lock regions, must-pass-through, who-may-call/write, table agreement"},
        ],
        "checks": checks,
        "notes": "Static analysis only: every check re-extracts facts from /repo's current working tree (cached by source hash) and never runs inputlayer. exit 0 = clause holds, exit 1 = VIOLATION lines, exit 2 = CHECK-ERROR (fail closed: anchor missing / below floor / tree does not type-check). known_findings.txt lists recorded findings and the repaired defects.",
        "not_applicable": [{"property_id": p["id"], "reason": na.get(p["id"], DEFAULT_NA)} for p in props if p["id"] not in claimed],
    }
    json.dump(m, open(os.path.join(VERIF, "MANIFEST.json"), "w"), indent=1)
    print("claimed", len(checks), "n/a", len(m["not_applicable"]))


if __name__ == "__main__":
    main()
